#!/usr/bin/env python3
import json, jsonschema, glob, sys
ms = json.load(open('/root/.vp/MANIFEST.schema.json')); es = json.load(open('/root/.vp/EVIDENCE.schema.json'))
man = json.load(open('/verif/MANIFEST.json')); jsonschema.validate(man, ms)
bad = 0
for c in man['checks']:
    p = '/verif/' + c['evidence_file']
    try:
        ev = json.load(open(p)); jsonschema.validate(ev, es)
        lvl_ok = ev['level'] == c['level_claimed']['category']
        cov = ev['coverage']
        print(c['property_id'], 'ok' if lvl_ok else 'LEVEL MISMATCH', ev['level'], 'obl', cov.get('obligations'), 'dis', cov.get('discharged'), 'viol', ev.get('violations'), 'undecided', len(cov.get('undecided', [])))
        if not lvl_ok or cov.get('obligations') != cov.get('discharged') or cov.get('undecided'):
            bad += 1
    except Exception as e:
        print(c['property_id'], 'INVALID', str(e)[:200]); bad += 1
print('problems:', bad)
