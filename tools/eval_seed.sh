#!/bin/bash
# tools/eval_seed.sh <seed-dir> <ID> [extra check args]: apply seed patch to /repo, run the check, undo; prints verdict.
d=$1; id=$2; shift 2
git -C /repo status --short | grep -q . && { echo "repo dirty"; exit 3; }
git -C /repo apply "$d/patch.diff" || { echo "patch does not apply"; exit 3; }
VX_NO_PLAYBACK=${VX_NO_PLAYBACK:-1} /verif/check "$id" "$@" > "$d/check_$id.log" 2>&1; rc=$?
git -C /repo checkout -- .
echo "seed=$d check=$id exit=$rc"; grep -E "^(VIOLATION|UNDECIDED|OK|KNOWN)" "$d/check_$id.log" | cut -c1-300 | head -8
