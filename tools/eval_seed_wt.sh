#!/bin/bash
# tools/eval_seed_wt.sh <seed-dir> <ID> [extra check args]: like eval_seed.sh, but applies the seed to a scratch worktree of /repo (VX_REPO) instead of /repo itself,
# so that other checks can keep running against /repo.  The evidence file of <ID> is overwritten by this run: re-run the check on the clean tree afterwards.
d=$1; id=$2; shift 2
wt=/tmp/wt-eval-$$
git -C /repo worktree add -f $wt HEAD -q || exit 3
git -C $wt apply "$d/patch.diff" || { echo "patch does not apply"; git -C /repo worktree remove --force $wt; exit 3; }
VX_REPO=$wt VX_BUILD=/verif/build/eval-$id VX_NO_PLAYBACK=${VX_NO_PLAYBACK:-1} /verif/check "$id" "$@" > "$d/check_$id.log" 2>&1; rc=$?
git -C /repo worktree remove --force $wt
echo "seed=$d check=$id exit=$rc"; grep -E "^(VIOLATION|UNDECIDED|OK|KNOWN)" "$d/check_$id.log" | cut -c1-300 | head -8
