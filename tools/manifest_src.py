HOOKS = {
    "guard": "cargo feature `verif` (none added so far: verification reads source text and needs no hook)",
    "enable": "not needed by any registered check",
    "baseline_off_cmd": "cd /repo && cargo nextest run --workspace --no-fail-fast --test-threads 8 --offline",
    "source_commits": [],
    "add_only": True,
}
NOTES = ("Every check re-extracts the functions under contract from /repo's working tree, so it always verifies the code that is there now. "
         "exit 0 = every obligation discharged; exit 1 = a contract obligation refuted (VIOLATION line); exit 2 = undecided (lost anchor, "
         "unsupported construct, solver limit) and never an alarm.")
NOT_APPLICABLE = {}
CHECKS = {
    "C16": dict(
        category="proof",
        technique="Verus contracts (requires/ensures + representation invariant) on the extracted BundleFactory/SizedBundle functions; induction lemma over the contracts for push/pop histories",
        text="Every public operation of SizedBundle/BundleFactory is verified, for all inputs and all reachable states, against a contract over the abstract "
             "view accepted = flatten(finished) ++ curr: try_push appends exactly the accepted action or leaves everything untouched, refuses exactly in the two "
             "stated cases, every bundle's size is the sum of its actions' encoded lengths and never exceeds max, pop_now emits the oldest prefix in order. "
             "A proof fn lifts this to arbitrary push/pop histories (each accepted action emitted exactly once, in order).",
        note="Trusted: Verus/Z3; prost encoded_len and with_ibc_prefixed as uninterpreted functions; the metrics-only rollup_counts statement hoisted into an "
             "opaque function; mem::replace specification; max_size < usize::MAX. NextFinishedBundle (a &mut-holding struct) is outside Verus' subset.",
    ),
}
