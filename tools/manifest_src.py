HOOKS = {
    "guard": "cargo feature `verif` (none added so far: verification reads source text and needs no hook)",
    "enable": "not needed by any registered check",
    "baseline_off_cmd": "cd /repo && cargo nextest run --workspace --no-fail-fast --test-threads 8 --offline",
    "source_commits": [],
    "add_only": True,
}
NOTES = ("Every check re-extracts the functions under contract from /repo's working tree, so it always verifies the code that is there now. "
         "exit 0 = every obligation discharged; exit 1 = a contract obligation refuted (VIOLATION line); exit 2 = undecided (lost anchor, "
         "unsupported construct, solver limit) and never an alarm.")
NOT_APPLICABLE = {}
KANI_TB = "Trusted: Kani/CBMC, the hand-written shim environment (shims/common.rs, shims/seq.rs: symbolic store with declared keys, typed accessors, 2-byte addresses / 1-byte asset ids), cnidarium delta semantics, borsh/key injectivity."
CHECKS = {
    "C01": dict(
        category="proof",
        technique="Kani loop-free harnesses (full-domain symbolic store + u128 amounts) on the extracted increase/decrease_balance, fee, pay_fee, add_fee_to_block_fees, App::end_block, Transfer/BridgeLock/BridgeUnlock/Ics20Withdrawal execute",
        text="Each ledger-moving function is verified for all amounts and all initial states of the keys it touches: exact debit/credit in mathematical integers (no wrap, no saturation), "
             "conservation per call including the alias case, write frame (no other key changes), fee == base + multiplier*size exactly, fee debited from the signer only and credited to the block-fee map by the same amount, and end_block credits every asset's block total to the fee recipient exactly (map of <= 2 assets, bounded).",
        note=KANI_TB + " BridgeTransfer is under C04, ICS-20 receive/refund under C18; known finding K3 (unescrowed withdrawal of a sequencer-origin asset named by its ibc/ hash) is reported under C01 and C18. Not under contract: per-action FeeHandler impls, the lifting from per-call to per-history conservation is a Verus lemma (c01_ledger) over a hand transcription of these postconditions in per-asset aggregates (trusted transcription).",
    ),
    "C02": dict(
        category="proof",
        technique="Kani loop-free harnesses on run_mutable_checks+execute of Transfer, BridgeLock, BridgeUnlock, BridgeTransfer, Ics20Withdrawal, InitBridgeAccount, SudoAddressChange, IbcSudoChange, IbcRelayerChange, BridgeSudoChange, FeeChange (all 18 kinds), FeeAssetChange, ValidatorUpdate against a symbolic store; Kani harness on the extracted astria-core `impl Protobuf for Transaction` with the signature check as a logged opaque predicate",
        text="For each action under contract: execute == Ok implies the signer equals the authority read from the pre-state of that very call (signer itself and not a bridge account; current withdrawer; current sudo / ibc sudo / bridge sudo), "
             "and only the action's own key family is written (frame assertion over all other keys). A Transaction value exists only after exactly one successful signature check with the message's own key and signature over exactly the bytes its body is decoded from.",
        note=KANI_TB + " Not under contract: CurrencyPairsChange, MarketsChange, IbcRelay, RecoverIbcClient; ed25519 itself is an opaque predicate.",
    ),
    "C03": dict(
        category="proof",
        technique="Kani harnesses on the extracted CheckedTransaction::execute (nonce prefix loop-free, action loop unrolled to 3) and App::execute_transaction with a logging StateDelta stand-in",
        text="A transaction takes effect only if its nonce equals the signer's stored nonce, which is then raised by exactly one (u32::MAX refused); a wrong nonce is refused before any write or action; actions run in order with their own index and stop at the first failure; "
             "execute_transaction runs in its own delta which is applied exactly when execution returned Ok and dropped otherwise.",
        note=KANI_TB + " The action loop is bounded to 3 actions (labelled bounded). At-most-once over any history of attempts follows from nonce equality + increment by induction: Verus lemma c03_history over a transcription of the step contract (the transcription is trusted).",
    ),
    "C04": dict(
        category="proof",
        technique="Kani loop-free harnesses on the extracted BridgeLock execute/record_deposit, BridgeUnlock and BridgeTransfer run_mutable_checks/execute/record_withdrawal_event, Ics20Withdrawal execute and ICS-20 recv_packet_execute against a symbolic store with a deposit log",
        text="BridgeLock: Ok implies exactly one deposit (the action's) is cached together with an equal credit of the named bridge account in the same call, Err implies no deposit and no deposit event. "
             "BridgeUnlock: Ok implies the event id was unused in the pre-state and is recorded afterwards under (bridge address, id); a refused withdrawal consumes no id. BridgeTransfer and Ics20Withdrawal: same event-id contract under the bridge address, debit of the source bridge equals the deposit/credit on the destination; an error-acknowledged ICS-20 receive leaves no cached deposit.",
        note=KANI_TB + " Not under contract: construction of the Deposit in CheckedBridgeLockImpl::new, publication of cached deposits into the block.",
    ),
    "C05": dict(
        category="other",
        technique="Kani full-domain harnesses on the extracted ExecutionStateMachine transition functions (contract = total transition relation); Kani harnesses on the extracted App::process_proposal and App::finalize_block with the application state modelled as the ordered log of state-changing steps",
        text="Decides only the part of the property that lives in the execution-state machine: check_if_prepared_proposal returns true iff the cached proposal equals the request in every one of its seven fields, check_if_executed_block true iff the hash is the executed block's, "
             "set_executed_block succeeds only from Unset/PreparedValid, errors leave the machine unchanged and the two mismatch states are absorbing, for all states and requests. App skeleton: for a decided block the validator path (ProcessProposal, then FinalizeBlock served from the cache) and the syncing path (FinalizeBlock alone) apply the same steps in the same order and return the same app hash, events and transaction results — discharged for blocks without oracle prices (up to 1 transaction quick, 2 thorough); for blocks carrying prices the obligation fails and is the listed known finding K2. Determinism below the skeleton is NOT decided.",
        note="level other: a per-function proof of the skip/re-execute decision, not of determinism. Trusted: Kani/CBMC, small finite stand-ins for tendermint types. Steps below the skeleton (pre-execution, transaction execution, post-execution, price application, commit) are logged stand-ins and nothing is assumed to commute; the ExecutionStateMachine stand-in in unit c05_paths transcribes the relation proved in c05_execution_state. A proposal rejected after its transactions ran leaves no state behind (next round == syncing path). Not under contract: prepare_proposal's own cached path, commit, HashMap iteration, storage.",
    ),
    "C06": dict(
        category="proof",
        technique="Verus contracts on the extracted BlockSizeConstraints methods (representation invariant current <= max) + induction lemma over a sequence of additions; Kani harnesses on the extracted App::proposal_checks_and_tx_execution (Prepare and Process modes, full-domain sizes) and on the prepare/process transaction loops (bounded to 2 mempool transactions) with a deterministic execution stand-in",
        text="has_space(s) <=> current + s <= max, checked_add(s) is Ok <=> has_space(s) with an exact update and an untouched state on Err, for all values; hence a block assembled under these guards stays within both limits and the same additions replayed by ProcessProposal cannot fail. Proposal step: PrepareProposal includes a transaction iff it fits both limits, is not of a higher-priority group than what is already included and executes without a fatal error, with exact running totals, and leaves totals and group untouched otherwise; ProcessProposal from the same point accepts exactly those transactions with the same result, totals and group, and rejects over-limit, mis-ordered and fatally failing ones before/without keeping them. Loops: whatever prepare_proposal_tx_execution builds from a mempool is within both limits, group-ordered, cached for FinalizeBlock, and accepted by process_proposal_tx_execution on the same state with identical results and final state (bounded).",
        note="Trusted: Verus/Z3, GeneratedCommitments::total_size as an opaque constant, R6 rewrites of ensure!/eyre macros. Kani part trusts the stand-ins for CheckedTransaction / execute_transaction (deterministic in state and transaction) / Mempool / ExecTxResult. Not under contract: commitment generation and comparison, decoding and signature checks of proposed transactions, extended-commit-info and upgrade handling in prepare_proposal/process_proposal.",
    ),
    "C07": dict(
        category="other",
        technique="Kani harnesses on the extracted receiver-side binding functions (conductor reconstruct, astria-core do_rollup_transactions_match_root) with Merkle audits as logged opaque predicates; Kani harnesses on the extracted builder side (sequencer generate_rollup_datas_commitment, astria-core group_rollup_data_submissions_by_rollup_id / derive_merkle_tree_from_rollup_txs / SequencerBlockBuilder::try_build) with fixed-capacity map/list stand-ins; Kani harness on the extracted SequencerBlock::try_from_raw with proof verification as a logged opaque predicate",
        text="Receiver side: rollup data is attached to metadata (conductor) or accepted for a block (astria-core) only through an audit of the data's own proof against that metadata's/header's root over the leaf rollup_id ‖ MTH(its own transactions); "
             "a header is consumed only by a blob with the same block hash that passed that audit. With C08 (a verifying proof fixes leaf and path under H-inj) this gives tamper evidence for alteration and re-attribution. Builder side (bounded block shapes): the block builder accepts exactly the commitments the sequencer generates for the same transactions and deposits (whatever the deposit map iteration order), stores per rollup exactly that rollup's payloads in block order followed by its deposits, lists exactly the rollups with data in ascending id order, attaches to each the proof of its own leaf id ‖ MTH(its data), and refuses mismatching commitments. Client side: decoding a served SequencerBlock never panics and succeeds only if the header's rollup-transactions root, the block's own per-rollup data (leaf by leaf) and its own rollup-id list were each proved against the header's data hash.",
        note="level other. Trusted: Kani/CBMC, opaque audit predicate, MTH as an uninterpreted function. Builder side is bounded (<= 2 data submissions over 3 rollup ids, deposits for <= 2 rollups) and uses stand-ins for IndexMap/HashMap/Vec/merkle::Tree and the block structs. NOT covered: gRPC filtering, split_for_celestia, FilteredSequencerBlock / SubmittedRollupData / SubmittedMetadata decoders.",
    ),
    "C08": dict(
        category="proof",
        technique="Kani in place on the whole astria-merkle crate (function contract on complete_parent, full-domain harnesses on the index arithmetic, sha2 replaced by a structural hash) + Verus on the extracted verification walk with the Kani-proved contracts imported + Verus soundness lemma under H-inj",
        text="Index arithmetic proved against independent bit-level specifications for every i < n <= usize::MAX/2; decoding accepts exactly the proofs inside that domain and never panics; the verification walk terminates without panic for every decodable proof and equals the RFC 6962 fold; "
             "verify is true only if the path length equals the leaf depth and the fold equals the root; under injectivity of the hash a proof verifies for one leaf hash and one path only. RFC-6962 shape of roots and completeness of constructed proofs: bounded (every tree of up to 3/6 leaves).",
        note="Trusted: Kani/CBMC, Verus/Z3, SHA-256 collision resistance (H-inj), the sha2 structural shim, the textual identity of the contracts imported from Kani into Verus. Bounded stand-ins are labelled in the evidence (structure harnesses, audit_path_len value for tree_size <= 65535 in the quick tier).",
    ),
    "C09": dict(
        category="proof",
        technique="Verus postcondition on the extracted quorum threshold function (all u64 pairs), Kani harness on the extracted BlobVerifier::verify_metadata decision with an arbitrary cache outcome, bounded Kani harness on ensure_commit_has_quorum with logged signature checks",
        text="The threshold function returns true iff 3*committed > 2*total in exact arithmetic; verify_metadata returns Some only for metadata whose chain id and block hash equal those of the quorum-checked commit at its own height and drops nothing that matches; "
             "the tally accepts only if distinct validators with logged successful signature checks over this commit's canonical vote hold > 2/3 (bounded to 2 validators x 2 signatures).",
        note="Trusted: Verus/Z3, Kani/CBMC, ed25519 as an opaque predicate, tendermint/moka stand-ins. Not under contract: RPC fetching, reconstruct/convert (Merkle binding of rollup data is C07/C08).",
    ),
    "C10": dict(
        category="other",
        technique="Kani harnesses on the extracted BlockCache (representation invariant, capacity 3), should_execute_firm_block, does_block_response_fulfill_contract, the height mapping, and step contracts on the extracted Initialized::execute_soft / execute_firm / execute_block / update_commitment_state against a logging rollup client; Verus induction lemma over a transcription of the step contracts for arbitrary interleavings",
        text="BlockCache hands out exactly the block of the next expected height, once, rejects old and duplicate deliveries, never lowers its next height and keeps its invariant; a firm block is executed iff soft has not executed that height; the rollup must answer with exactly current+1; the height mapping is exact and inverse. "
             "Executor steps: a soft block is executed only at exactly the next soft height (older: ignored without any call, newer: error without any call), a firm block only at exactly the next firm height and executed only if soft has not already executed it, at most one ExecuteBlock per step, commitments move by one and firm <= soft. A Verus lemma proves from a transcription of these step contracts that any finite interleaving executes the heights start..next-1 once each in order.",
        note="level other: kernel only. Trusted: Kani/CBMC, ordered-map stand-in for BTreeMap (capacity 3, labelled bounded), tendermint Height <= i64::MAX. The transition relation used by the interleaving lemma is a hand transcription of the step contracts (trusted). Not covered: tokio select loop, reader tasks, restart.",
    ),
    "C11": dict(
        category="other",
        technique="Kani loop-free harnesses on the extracted submission-state functions against a two-cell file-system stand-in with failing writes and atomic rename, and on the extracted write::try_submit / try_confirm_submission_from_failed_attempt / try_confirm_submission_from_last_session against a logged Celestia client with arbitrary RPC outcomes",
        text="State::write never writes the state file in place (temp then rename) and is all-or-nothing; State::read accepts a Prepared record only if its height is beyond the last confirmed one; construct_and_write makes the prepared record durable before returning and carries last_submission unchanged; "
             "into_started advances last_submission exactly to the in-flight height, revert keeps it; restart resumes from the confirmed height. write::try_submit: the Prepared record naming this transaction and height is durable before the broadcast, Started is recorded only after an accepted broadcast or a positive confirmation, a timed-out broadcast leaves the state Prepared and the next attempt confirms first and does not resend a confirmed transaction; at start-up a Prepared record is confirmed (=> started at the in-flight height) or reverted, never both.",
        note="level other: invariant kernel under a stated crash model (POSIX rename atomic, no torn temp read-back). Trusted: Kani/CBMC, serde_json round-trip, the file-system stand-in. Not covered: the tokio select loop of BlobSubmitter::run and tryhard retry plumbing, the no-gap induction over restarts (argued in DESIGN §6).",
    ),
    "C12": dict(
        category="other",
        technique="Kani loop-free harnesses on the extracted NextSubmission::try_add, TakeSubmission::poll and BlobSubmitter::add_sequencer_block_to_next_submission/has_capacity with stand-ins for the input/payload conversion",
        text="try_add commits a candidate only if its compressed payload is within MAX_PAYLOAD_SIZE_BYTES, appends the block exactly once after the earlier ones with the payload built from that very input, and on refusal leaves the batch untouched and hands the block back; take() moves input and payload out together and leaves nothing behind; a block that does not fit is kept in the pending slot (exactly one of batch / pending) and the channel is not read while it is pending.",
        note="level other. Trusted: Kani/CBMC; Input::extend_from_sequencer_block / try_into_payload (filter, protobuf, brotli, Blob::new) are stand-ins. Not covered: metadata-vs-filter behaviour, the select loop re-adding the pending block, encode/decode agreement with conductor.",
    ),
    "C13": dict(
        category="other",
        technique="Kani full-domain harnesses on the extracted TransactionPriority ordering and TransactionsForAccount::add for the pending container (capacity 3); bounded Kani harnesses on the extracted MempoolInner::run_maintenance, ::insert and ::remove_tx_invalid against contract-level container stand-ins",
        text="The builder-queue priority is a total order that puts a lower nonce of the same group first; add on the ready container preserves `consecutive nonces starting at the account nonce` and joint affordability, and a refused add leaves the container untouched with the stated reason. run_maintenance (one account, <= 2 ready + <= 2 parked, bounded): every transaction ends in exactly one of ready / parked / reported-removed, no used nonce remains, the membership index agrees, the ready queue is consecutive from the account nonce and jointly affordable, the parked limit holds. insert: a new transaction ends in exactly one of ready / parked or is refused without any effect, promotions it triggers keep every old transaction accounted for; remove_tx_invalid: the transaction and its dependents are removed and reported with a reason, nothing else is lost.",
        note="level other: container kernel. Trusted: Kani/CBMC, ordered-map stand-in, single-asset cost model. The per-account containers under run_maintenance are stand-ins implementing their contracts (trusted). Not covered: parked container internals, the async Mempool wrapper (check-then-insert window), builder_queue.",
    ),
    "C14": dict(
        category="proof",
        technique="Kani loop-free harnesses on the extracted CheckedValidatorUpdate::do_run_mutable_checks/execute (post-Aspen branch) against a symbolic store; split obligation for the known finding K1",
        text="execute == Ok implies: signer is the current sudo; the validator entry, the stored count and the block's update entry for the key change together (count changes exactly as membership does, so count == size is preserved); "
             "a removal requires the validator to exist and count > 1 (never empties the set); only these three keys are written. The obligation that a reported removal names a validator CometBFT has is a listed known finding (K1).",
        note=KANI_TB + " App::end_block returns exactly the block's update set and clears it (unit c01_end_block). Pre-Aspen branch, ValidatorSet::apply_updates and authority end_block are not under contract; precondition count < u64::MAX.",
    ),
    "C15": dict(
        category="proof",
        technique="Verus contracts on the extracted price_feed::utils::median and Price arithmetic (sort specified as sorted permutation); Kani harnesses on the extracted validate_vote_extensions and validate_extended_commit_against_last_commit with logged signature checks (bounded 2 votes); Kani harness on the extracted aggregate_oracle_votes with the median replaced by its proved contract",
        text="For every list of i128 prices of any length: median never panics, returns None exactly for the empty list, and the returned value lies between the minimum and maximum reported price. Vote extensions enter only with a logged valid signature of a validator in the set over this chain and height, with > 2/3 of power, and the extended commit must agree with the last commit vote by vote (bounded to 2 votes). Aggregation publishes at most one price per currency pair known to the mapping, computed from exactly the prices reported for that pair in this block (so it lies within that pair's reported range); unknown ids are ignored (bounded: 2 votes x 2 prices).",
        note="Trusted: Verus/Z3, slice::sort_unstable specified as a sorted permutation, specs for Option::copied / div_euclid / rem_euclid. Not under contract: protobuf decoding of the extensions, the proposer's id -> currency-pair mapping, price application order (K2, see C05).",
    ),
    "C16": dict(
        category="proof",
        technique="Verus contracts (requires/ensures + representation invariant) on the extracted BundleFactory/SizedBundle functions; induction lemma over the contracts for push/pop histories",
        text="Every public operation of SizedBundle/BundleFactory is verified, for all inputs and all reachable states, against a contract over the abstract "
             "view accepted = flatten(finished) ++ curr: try_push appends exactly the accepted action or leaves everything untouched, refuses exactly in the two "
             "stated cases, every bundle's size is the sum of its actions' encoded lengths and never exceeds max, pop_now emits the oldest prefix in order. "
             "A proof fn lifts this to arbitrary push/pop histories (each accepted action emitted exactly once, in order).",
        note="Trusted: Verus/Z3; prost encoded_len and with_ibc_prefixed as uninterpreted functions; the metrics-only rollup_counts statement hoisted into an "
             "opaque function; mem::replace specification; max_size < usize::MAX. NextFinishedBundle (a &mut-holding struct) is outside Verus' subset.",
    ),
    "C17": dict(
        category="other",
        technique="Kani in place on astria-merkle with astria-core's `impl Protobuf for merkle::Proof` cut into the same crate: decode of an arbitrary wire proof; Kani harness on the extracted `impl Protobuf for Transaction`",
        text="Decides one component: decoding any wire Merkle proof (any leaf_index/tree_size u64, path up to 40 bytes) never panics and an accepted proof re-encodes to the message it came from; verification of every decoded proof is total (C08 units); decoding a served SequencerBlock is total and binds it to its header (unit c07_block_decode); decoding a wire transaction either fails or yields a value that was signature-checked over its own body bytes and re-encodes to the same message. "
             "The block-, metadata- and transaction-level decoders are not under contract.",
        note="level other. Trusted: Kani/CBMC, stand-ins for Protobuf/raw::Proof/Bytes. NOT covered: prost/serde_json/brotli byte decoders; try_from_raw of SequencerBlock, FilteredSequencerBlock, SubmittedMetadata, SubmittedRollupData, Transaction; panics in tokio tasks.",
    ),
    "C18": dict(
        category="proof",
        technique="Kani loop-free harnesses on the extracted decrease_ibc_channel_balance, refund_tokens_to_sequencer_address, is_transfer/refund_source_zone and receive_tokens against a symbolic store; recv_packet_execute with a snapshot/restore StateDelta stand-in; refund_tokens with the real emit_deposit, timeout_packet_execute and acknowledge_packet_execute",
        text="Escrow is debited by exactly the amount and never below zero (insufficient escrow is an error, nothing written); a refund releases escrow exactly iff the sequencer was the source zone and credits the recipient exactly; a successful receive debits escrow / registers the asset and credits exactly, with a deposit iff the recipient is a bridge account. "
             "recv_packet_execute: an error acknowledgement implies that no balance, escrow, asset registration, deposit or event of the failed transfer survives; on success the nested delta is applied once and its events re-recorded. Refund side: a successful refund credits the original sender exactly, releases escrow exactly iff the sequencer was the source zone, and for a withdrawal that came from a rollup caches exactly one deposit to the bridge account of that rollup for the same amount and asset; a timeout refunds once or fails; an acknowledgement refunds iff it is an error acknowledgement, a success acknowledgement moves nothing, an undecodable one is an error.",
        note=KANI_TB + " Packet data carried pre-parsed; emit_bridge_lock_deposit is a stand-in; denoms have at most 2 trace segments. Memo and acknowledgement parsing are carried pre-parsed (acknowledgement bytes keep a canonical-encoding flag). Known finding K3: an Ics20Withdrawal naming a sequencer-origin asset by its ibc/ hash is debited but not escrowed. Ics20Withdrawal::execute (sending side) is unit c18_withdrawal.",
    ),
}
