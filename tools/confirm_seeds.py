#!/usr/bin/env python3
"""Confirm seeded changes in ONE scratch worktree (outside /repo and /verif), then remove it.
For each seed: (1) patch+demo applies and compiles, demo FAILS; (2) demo alone PASSES; (3) patch alone: the crate's lib tests pass.
usage: confirm_seeds.py <out.json> <seed-dir>:<crate>[:<existing-filter>] ...
"""
import json, os, re, subprocess, sys
WT = os.environ.get("VX_WT", "/tmp/wt-verify")
ENV = dict(os.environ, CARGO_TARGET_DIR=WT + "/target", CARGO_NET_OFFLINE="true")

def sh(cmd, cwd=WT, timeout=3600):
    p = subprocess.run(cmd, shell=True, cwd=cwd, env=ENV, capture_output=True, text=True, timeout=timeout)
    return p.returncode, (p.stdout + p.stderr)[-3000:]

def reset():
    sh("git checkout -- . && git clean -fdq -e target")

def main():
    out = sys.argv[1]
    res = {}
    if not os.path.isdir(WT):
        subprocess.run("git -C /repo worktree add %s HEAD" % WT, shell=True, check=True)
    for spec in sys.argv[2:]:
        parts = spec.split("|") if "|" in spec else spec.split(":")
        d, crate = parts[0], parts[1]
        filt = parts[2] if len(parts) > 2 else ""
        meta = json.load(open(d + "/meta.json"))
        demo = meta["demo_cmd"]
        m = re.search(r"cargo test (.*)$", demo)
        args = m.group(1).replace("-j 6", "-j 10")
        cmd = "cargo test " + args
        r = {"seed": d, "demo_cmd": cmd}
        reset()
        rc, o = sh("git apply %s/patch.diff && git apply %s/demo.diff" % (d, d))
        r["applies"] = rc == 0
        rc1, o1 = sh(cmd)
        r["demo_with_patch_fails"] = rc1 != 0 and ("test result: FAILED" in o1 or "panicked" in o1 or "test failed" in o1)
        r["demo_with_patch_tail"] = o1[-600:]
        reset()
        sh("git apply %s/demo.diff" % d)
        rc2, o2 = sh(cmd)
        r["demo_without_patch_passes"] = rc2 == 0
        reset()
        sh("git apply %s/patch.diff" % d)
        ex = "cargo test --offline -j 10 -p %s --lib %s -- --skip failed_ibc_relay_included_in_block" % (crate, filt)   # those 3 tests fail under plain cargo test (shared process) on every tree; the baseline uses nextest
        if crate == "astria-merkle":
            ex = "cargo test --offline -j 10 -p astria-merkle"
        rc3, o3 = sh(ex)
        fails = re.findall(r"^test (\S+) \.\.\. FAILED", o3, re.M)
        r["existing_cmd"] = ex
        r["existing_pass"] = rc3 == 0
        r["existing_failures"] = fails[:10]
        r["existing_tail"] = o3[-400:]
        reset()
        res[d] = r
        json.dump(res, open(out, "w"), indent=1)
        print(d, {k: v for k, v in r.items() if isinstance(v, bool)}, flush=True)
    subprocess.run("git -C /repo worktree remove --force %s" % WT, shell=True)

main()
