#!/bin/bash
# tools/try_patch.sh <patch.diff> <ID> [<ID>...]: apply a patch to /repo, run checks, undo.
p=$(realpath "$1"); shift
git -C /repo apply "$p" || { echo "patch does not apply"; exit 3; }
for id in "$@"; do /verif/check "$id"; echo "exit($id)=$?"; done
git -C /repo checkout -- . 
git -C /repo status --short | head
