#!/usr/bin/env python3
"""Regenerates MANIFEST.json from tools/manifest_src.py (claimed checks) and properties.jsonl."""
import json, os, sys
HERE = os.path.dirname(os.path.dirname(os.path.abspath(__file__)))
sys.path.insert(0, os.path.join(HERE, "tools"))
import manifest_src as M
props = [json.loads(l)["id"] for l in open(os.path.join(HERE, "properties.jsonl"))]
checks = []
for pid in props:
    c = M.CHECKS.get(pid)
    if not c:
        continue
    checks.append({
        "property_id": pid,
        "quick_cmd": "./check %s --tier quick" % pid,
        "thorough_cmd": "./check %s --tier thorough" % pid,
        "evidence_file": "evidence/%s.json" % pid,
        "replay_cmd_template": "./check %s --replay {path}" % pid,
        "engine": "vx",
        "level_claimed": {"category": c["category"], "text": c["text"], "design_ref": c.get("design_ref", "DESIGN.md §6 " + pid)},
        "level_note": c["note"],
        "technique": c["technique"],
    })
na = [{"property_id": pid, "reason": M.NOT_APPLICABLE.get(pid, "not yet built in this session: no contract unit registered for this property (see DESIGN.md §8 build order)")}
      for pid in props if pid not in M.CHECKS]
man = {
    "version": 1,
    "setup_cmd": "./setup.sh",
    "hooks": M.HOOKS,
    "engines": [{"name": "vx", "path": "vx/", "serves_properties": sorted(M.CHECKS), "kind_free_text":
                 "contract-based deductive verification: python extractor cuts the real functions from /repo on every run; Verus (SMT, unbounded) and Kani/CBMC (bit-precise, function contracts / loop-free harnesses) discharge the obligations"}],
    "checks": checks,
    "notes": M.NOTES,
    "not_applicable": na,
}
json.dump(man, open(os.path.join(HERE, "MANIFEST.json"), "w"), indent=1)
print("checks:", [c["property_id"] for c in checks], "not_applicable:", [n["property_id"] for n in na])
