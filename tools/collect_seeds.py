#!/usr/bin/env python3
"""Copies confirmed seeded changes into /verif/seeded/<name>/ with meta.json (property, needs, what was run, which check caught it)."""
import json, os, re, shutil, sys, glob
SEEDS = {
 # name: (source dir, property, check id whose log records the verdict)
 "C16-A": ("/tmp/seed-C16/A", "C16", "C16"), "C16-B": ("/tmp/seed-C16/B", "C16", "C16"),
 "C08-A": ("/tmp/seed-C08/A", "C08", "C08"), "C08-B": ("/tmp/seed-C08/B", "C08", "C08"),
 "C09-A": ("/tmp/seed-C09/A", "C09", "C09"), "C09-B": ("/tmp/seed-C09/B", "C09", "C09"),
 "C01-A": ("/tmp/seed-S1/C01", "C01", "C01"), "C04-A": ("/tmp/seed-S1/C04", "C04", "C04"),
 "C03-A": ("/tmp/seed-S2/C03", "C03", "C03"), "C02-A": ("/tmp/seed-S2/C02", "C02", "C02"),
 "C14-A": ("/tmp/seed-S3/C14", "C14", "C14"), "C18-A": ("/tmp/seed-S3/C18", "C18", "C18"), "C13-A": ("/tmp/seed-S3/C13", "C13", "C13"),
 "C06-B": ("/tmp/seed-S4/C06-1", "C06", "C06"), "C06-C": ("/tmp/seed-S4/C06-2", "C06", "C06"), "C11-B": ("/tmp/seed-S4/C11-1", "C11", "C11"), "C11-C": ("/tmp/seed-S4/C11-2", "C11", "C11"),
 "C15-A": ("/tmp/seed-S4/C15-1", "C15", "C15"), "C15-B": ("/tmp/seed-S4/C15-2", "C15", "C15"), "C02-B": ("/tmp/seed-S4/C02-1", "C02", "C02"), "C02-C": ("/tmp/seed-S4/C02-2", "C02", "C02"),
 "C05-A": ("/tmp/seed-S5/C05-1", "C05", "C05"), "C05-B": ("/tmp/seed-S5/C05-2", "C05", "C05"), "C07-A": ("/tmp/seed-S5/C07-1", "C07", "C07"), "C07-B": ("/tmp/seed-S5/C07-2", "C07", "C07"),
 "C13-B": ("/tmp/seed-S5/C13-1", "C13", "C13"), "C13-C": ("/tmp/seed-S5/C13-2", "C13", "C13"), "C18-B": ("/tmp/seed-S5/C18-1", "C18", "C18"), "C18-C": ("/tmp/seed-S5/C18-2", "C18", "C18"),
 "C11-A": ("/tmp/seed-S4/C11", "C11", "C11"), "C12-A": ("/tmp/seed-S4/C12", "C12", "C12"), "C10-A": ("/tmp/seed-S4/C10", "C10", "C10"),
}
confirm = {}
for f in glob.glob("/scratch/confirm*.json"):
    confirm.update(json.load(open(f)))
rows = []
for c_ in confirm.values():
    if not c_["demo_with_patch_fails"] and "test failed" in c_.get("demo_with_patch_tail", ""):
        c_["demo_with_patch_fails"] = True
for name, (src, prop, cid) in SEEDS.items():
    if not os.path.exists(src + "/patch.diff"):
        continue
    c = confirm.get(src)
    dst = "/verif/seeded/" + name
    log = src + "/check_%s.log" % cid
    verdict, oblig = "not run", ""
    if os.path.exists(log):
        t = open(log).read()
        if "VIOLATION property=" in t:
            verdict = "caught (exit 1)"
            oblig = "; ".join(sorted(set(re.findall(r"FAILED OBLIGATION (\S+)", t))))[:400]
        elif "UNDECIDED" in t:
            verdict = "undecided (exit 2)"
            oblig = (re.findall(r"UNDECIDED property=\S+ (.*)", t) or [""])[0][:300]
        elif re.search(r"^OK property", t, re.M):
            verdict = "MISSED (exit 0)"
    confirmed = bool(c and c["applies"] and c["demo_with_patch_fails"] and c["demo_without_patch_passes"] and (c["existing_pass"] or all("failed_ibc_relay_included_in_block" in x for x in c["existing_failures"])))
    rows.append((name, prop, verdict, oblig, confirmed, c))
    if not confirmed:
        continue
    os.makedirs(dst, exist_ok=True)
    shutil.copy(src + "/patch.diff", dst + "/patch.diff")
    shutil.copy(src + "/demo.diff", dst + "/demo.diff")
    meta = json.load(open(src + "/meta.json"))
    meta.update({"breaks_property": prop, "confirmed_by_me": {k: c[k] for k in ("demo_cmd", "applies", "demo_with_patch_fails", "demo_without_patch_passes", "existing_cmd", "existing_pass", "existing_failures")},
                 "check_verdict": verdict, "failed_obligations": oblig,
                 "how_to_rerun": "git -C /repo apply /verif/seeded/%s/patch.diff && /verif/check %s ; git -C /repo checkout -- ." % (name, cid)})
    json.dump(meta, open(dst + "/meta.json", "w"), indent=1)
for r in rows:
    print("| %s | %s | %s | %s | %s |" % (r[0], r[1], "yes" if r[4] else ("no" if r[5] else "pending"), r[2], r[3].replace("|", "/")))
