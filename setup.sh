#!/bin/bash
# Offline setup: nothing to build ahead of time (python + pre-installed verus/kani); warm the Verus cache and check tools.
set -e
cd "$(dirname "$0")"
mkdir -p build evidence replays /scratch
command -v verus >/dev/null || { echo "verus missing"; exit 1; }
command -v cargo-kani >/dev/null || { echo "kani missing"; exit 1; }
python3 -c "import sys; assert sys.version_info >= (3,8)"
echo "setup ok"
