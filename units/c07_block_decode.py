# SequencerBlock::try_from_raw + the inclusion helpers: what a client accepts from a sequencer's gRPC is bound to the header's data hash.  properties: "C07", "C17"
import importlib.util, os
_spec = importlib.util.spec_from_file_location("vx_c07b2", os.path.join(os.path.dirname(os.path.abspath(__file__)), "c07_builder.py"))
_b = importlib.util.module_from_spec(_spec); _spec.loader.exec_module(_b)
_P = _b.PRELUDE
_vec = _P[_P.index("pub const CAP: usize = 4;"):_P.index("#[derive(Clone, Copy, Debug, PartialEq, Eq, Default)] pub struct Arc<T>")]
_map = _P[_P.index("// ---- insertion-ordered map standing in"):_P.index("/// std HashMap: iteration order is arbitrary")]
S = "crates/astria-core/src/sequencerblock/v1/block/mod.rs"
M = "crates/astria-core/src/sequencerblock/v1/mod.rs"
V = "crates/astria-core/src/primitive/v1/mod.rs"

PRELUDE = _vec + _map + r'''
#[derive(Clone, Copy, Debug, PartialEq, Eq, PartialOrd, Ord, Default)] pub struct RollupId(pub [u8; 1]);
impl AsRef<[u8]> for RollupId { fn as_ref(&self) -> &[u8] { &self.0 } }
#[derive(Clone, Copy, Debug, PartialEq, Eq, Default)] pub struct Bytes(pub [u8; 2]);
impl AsRef<[u8]> for Bytes { fn as_ref(&self) -> &[u8] { &self.0 } }
impl Bytes { pub fn len(&self) -> usize { 2 } }
pub const SHA256_DIGEST_LENGTH: usize = 32;
/// SHA-256: an injective-by-assumption digest; here the identity embedding of up to 4 bytes into 32, tagged, so that equal digests mean equal inputs
pub struct Sha256;
impl Sha256 { pub fn digest<B: AsRef<[u8]>>(b: B) -> [u8; 32] { let s = b.as_ref(); let mut out = [0u8; 32]; out[0] = 0xd1; out[1] = if s.len() > 4 { 4 } else { s.len() as u8 }; let mut i = 0; while i < s.len() && i < 4 { out[2 + i] = s[i]; i += 1; } out } }
// ---- Merkle stand-ins: trees remember their leaves (roots are 4-byte digests padded to 32); proof verification is an opaque predicate with an arbitrary verdict, logged ----
pub mod merkle {
    pub const LCAP: usize = 4;
    #[derive(Clone, Copy, Debug, PartialEq, Eq, Default)] pub struct Leaf { pub b: [u8; 8], pub n: usize }
    #[derive(Clone, Copy, Debug, PartialEq, Eq, Default)] pub struct Tree { pub leaves: [Leaf; LCAP], pub n: usize }
    pub struct LeafBuilder<'a> { t: &'a mut Tree }
    impl<'a> LeafBuilder<'a> { pub fn write(&mut self, bytes: &[u8]) -> &mut Self { let l = &mut self.t.leaves[self.t.n - 1]; let mut i = 0; while i < bytes.len() && i < 4 { assert!(l.n < 8, "leaf capacity"); l.b[l.n] = bytes[i]; l.n += 1; i += 1; } self } }
    impl Tree {
        pub fn new() -> Self { Tree::default() }
        pub fn build_leaf(&mut self) -> LeafBuilder<'_> { assert!(self.n < LCAP, "tree capacity"); self.n += 1; LeafBuilder { t: self } }
        pub fn from_leaves<I: IntoIterator<Item = B>, B: AsRef<[u8]>>(it: I) -> Tree { let mut t = Tree::new(); for x in it { t.build_leaf().write(x.as_ref()); } t }
        pub fn root(&self) -> [u8; 4] { let mut h: u32 = 0x811c9dc5 ^ (self.n as u32); let mut i = 0; while i < self.n { let l = &self.leaves[i]; let mut j = 0; h = h.rotate_left(7) ^ (l.n as u32) ^ 0xa5; while j < l.n { h = h.rotate_left(5) ^ (l.b[j] as u32); j += 1; } i += 1; } h.to_le_bytes() }
    }
    #[derive(Clone, Copy, Debug, PartialEq, Eq, Default)] pub struct Proof(pub u8);
    #[derive(Clone, Copy, Debug, PartialEq, Eq)] pub struct VerifyCall { pub proof: u8, pub leaf: [u8; 32], pub root: [u8; 32], pub verdict: bool }
    pub static mut VERIFY: [Option<VerifyCall>; 4] = [None; 4];
    pub static mut N_VERIFY: usize = 0;
    #[derive(Debug)] pub struct InvalidProof;
    /// audit of a proof against a root for a leaf built from written bytes: opaque verdict, logged
    #[derive(Clone, Copy, Debug, PartialEq, Eq)] pub struct AuditCall { pub proof: u8, pub root: [u8; 32], pub leaf: [u8; 8], pub n: usize, pub verdict: bool }
    pub static mut AUDITS: [Option<AuditCall>; 3] = [None; 3];
    pub static mut N_AUDITS: usize = 0;
    #[derive(Clone, Copy)] pub struct Audit { proof: u8, root: [u8; 32], leaf: [u8; 8], n: usize }
    impl Audit {
        pub fn with_root(mut self, root: [u8; 32]) -> Self { self.root = root; self }
        pub fn with_leaf_builder(self) -> Self { self }
        pub fn write(mut self, b: &[u8]) -> Self { let mut i = 0; while i < b.len() && i < 4 { assert!(self.n < 8); self.leaf[self.n] = b[i]; self.n += 1; i += 1; } self }
        pub fn finish_leaf(self) -> Self { self }
        pub fn perform(&self) -> bool { let verdict: bool = kani::any(); unsafe { assert!(N_AUDITS < 3); AUDITS[N_AUDITS] = Some(AuditCall { proof: self.proof, root: self.root, leaf: self.leaf, n: self.n, verdict }); N_AUDITS += 1; } verdict }
    }
    impl Proof {
        pub fn verify(&self, leaf: &[u8; 32], root: [u8; 32]) -> bool { let verdict: bool = kani::any(); unsafe { assert!(N_VERIFY < 4); VERIFY[N_VERIFY] = Some(VerifyCall { proof: self.0, leaf: *leaf, root, verdict }); N_VERIFY += 1; } verdict }
        pub fn audit(&self) -> Audit { Audit { proof: self.0, root: [0; 32], leaf: [0; 8], n: 0 } }
        pub fn try_from_raw(r: crate::raw_primitive::Proof) -> Result<Proof, InvalidProof> { if r.0 == 0xff { Err(InvalidProof) } else { Ok(Proof(r.0)) } }
    }
}
pub mod raw_primitive { #[derive(Clone, Copy, Debug, PartialEq, Eq, Default)] pub struct Proof(pub u8); }
// ---- wire and domain stand-ins (field names as in astria-core) --------------------------------------------------------------------------------
#[derive(Clone, Copy, Debug, PartialEq, Eq, Default)] pub struct RollupTransactions { pub rollup_id: RollupId, pub transactions: Vec<Bytes>, pub proof: merkle::Proof }
#[derive(Debug)] pub struct RollupTransactionsError;
impl RollupTransactions {
    pub fn transactions(&self) -> &[Bytes] { &self.transactions }
    pub fn rollup_id(&self) -> &RollupId { &self.rollup_id }
    pub fn proof(&self) -> &merkle::Proof { &self.proof }
    pub fn try_from_raw(raw: raw::RollupTransactions) -> Result<Self, RollupTransactionsError> { if raw.bad { Err(RollupTransactionsError) } else { Ok(RollupTransactions { rollup_id: raw.rollup_id, transactions: raw.transactions, proof: merkle::Proof(raw.proof) }) } }
}
#[derive(Clone, Copy, Debug, PartialEq, Eq, Default)] pub struct SequencerBlockHeader { pub rollup_transactions_root: [u8; 32], pub data_hash: [u8; 32], pub height: u8 }
#[derive(Debug)] pub struct HeaderError;
impl SequencerBlockHeader { pub fn try_from_raw(raw: raw::SequencerBlockHeader) -> Result<Self, HeaderError> { if raw.bad { Err(HeaderError) } else { Ok(SequencerBlockHeader { rollup_transactions_root: raw.rollup_transactions_root, data_hash: raw.data_hash, height: raw.height }) } } }
#[derive(Clone, Copy, Debug, PartialEq, Eq, Default)] pub struct ChangeHash(pub u8);
#[derive(Debug)] pub struct ChangeHashError;
impl TryFrom<&[u8]> for ChangeHash { type Error = ChangeHashError; fn try_from(b: &[u8]) -> Result<Self, ChangeHashError> { if b[0] == 0xff { Err(ChangeHashError) } else { Ok(ChangeHash(b[0])) } } }
#[derive(Clone, Copy, Debug, PartialEq, Eq, Default)] pub struct ExtendedCommitInfoWithProof { pub info: u8, pub proof: merkle::Proof }
#[derive(Debug)] pub struct ExtendedCommitInfoError;
impl ExtendedCommitInfoWithProof {
    /// contract of the real function (not under contract here): verifies its own proof against the data hash
    pub fn try_from_raw(raw: raw::ExtendedCommitInfoWithProof, data_hash: [u8; 32]) -> Result<Self, ExtendedCommitInfoError> {
        let p = merkle::Proof(raw.proof); if !p.verify(&Sha256::digest(Bytes([raw.info, 0])), data_hash) { return Err(ExtendedCommitInfoError); } Ok(ExtendedCommitInfoWithProof { info: raw.info, proof: p }) }
}
pub mod raw {
    use crate::*;
    #[derive(Clone, Copy, Debug, PartialEq, Eq, Default)] pub struct RollupTransactions { pub rollup_id: RollupId, pub transactions: Vec<Bytes>, pub proof: u8, pub bad: bool }
    #[derive(Clone, Copy, Debug, PartialEq, Eq, Default)] pub struct SequencerBlockHeader { pub rollup_transactions_root: [u8; 32], pub data_hash: [u8; 32], pub height: u8, pub bad: bool }
    #[derive(Clone, Copy, Debug, PartialEq, Eq, Default)] pub struct ExtendedCommitInfoWithProof { pub info: u8, pub proof: u8 }
    #[derive(Clone, Copy, Debug, PartialEq, Eq, Default)] pub struct RawRollupId { pub id: u8, pub bad: bool }
    #[derive(Clone, Copy, Debug, PartialEq, Eq)] pub struct FilteredSequencerBlock { pub block_hash: BlockHashBytes, pub header: Option<SequencerBlockHeader>, pub rollup_transactions: Vec<RollupTransactions>, pub rollup_transactions_proof: Option<raw_primitive::Proof>,
        pub all_rollup_ids: Vec<RawRollupId>, pub rollup_ids_proof: Option<raw_primitive::Proof>, pub upgrade_change_hashes: Vec<Bytes>, pub extended_commit_info_with_proof: Option<ExtendedCommitInfoWithProof> }
    #[derive(Clone, Copy, Debug, PartialEq, Eq)] pub struct SequencerBlock { pub block_hash: BlockHashBytes, pub header: Option<SequencerBlockHeader>, pub rollup_transactions: Vec<RollupTransactions>, pub rollup_transactions_proof: Option<raw_primitive::Proof>,
        pub rollup_ids_proof: Option<raw_primitive::Proof>, pub upgrade_change_hashes: Vec<Bytes>, pub extended_commit_info_with_proof: Option<ExtendedCommitInfoWithProof> }
}
/// block hash bytes: right length or not
#[derive(Clone, Copy, Debug, PartialEq, Eq, Default)] pub struct BlockHashBytes { pub ok: bool, pub h: u8 }
impl BlockHashBytes { pub fn as_ref(&self) -> &BlockHashBytes { self } pub fn len(&self) -> usize { if self.ok { 32 } else { 31 } } }
#[derive(Clone, Copy, Debug, PartialEq, Eq, Default)] pub struct Hash(pub u8);
impl TryFrom<&BlockHashBytes> for Hash { type Error = (); fn try_from(b: &BlockHashBytes) -> Result<Self, ()> { if b.ok { Ok(Hash(b.h)) } else { Err(()) } } }
#[derive(Clone, Copy, Debug, PartialEq, Eq)] pub struct SequencerBlock { pub block_hash: Hash, pub header: SequencerBlockHeader, pub rollup_transactions: IndexMap<RollupId, RollupTransactions>, pub rollup_transactions_proof: merkle::Proof, pub rollup_ids_proof: merkle::Proof,
    pub upgrade_change_hashes: Vec<ChangeHash>, pub extended_commit_info_with_proof: Option<ExtendedCommitInfoWithProof> }
#[derive(Debug)] pub struct IncorrectRollupIdLength;
impl RollupId { pub fn try_from_raw(r: raw::RawRollupId) -> Result<RollupId, IncorrectRollupIdLength> { if r.bad { Err(IncorrectRollupIdLength) } else { Ok(RollupId([r.id])) } } }
#[derive(Clone, Copy, Debug, PartialEq, Eq)] pub struct FilteredSequencerBlock { pub block_hash: Hash, pub header: SequencerBlockHeader, pub rollup_transactions: IndexMap<RollupId, RollupTransactions>, pub rollup_transactions_proof: merkle::Proof,
    pub all_rollup_ids: Vec<RollupId>, pub rollup_ids_proof: merkle::Proof, pub upgrade_change_hashes: Vec<ChangeHash>, pub extended_commit_info_with_proof: Option<ExtendedCommitInfoWithProof> }
#[derive(Debug)] pub enum FilteredSequencerBlockError { E }
impl FilteredSequencerBlockError {
    pub fn invalid_block_hash(_n: usize) -> Self { Self::E } pub fn field_not_set(_f: &'static str) -> Self { Self::E } pub fn transaction_proof_invalid(_e: merkle::InvalidProof) -> Self { Self::E } pub fn id_proof_invalid(_e: merkle::InvalidProof) -> Self { Self::E }
    pub fn invalid_header(_e: HeaderError) -> Self { Self::E } pub fn parse_rollup_transactions(_e: RollupTransactionsError) -> Self { Self::E } pub fn invalid_rollup_id(_e: IncorrectRollupIdLength) -> Self { Self::E }
    pub fn rollup_transactions_not_in_sequencer_block() -> Self { Self::E } pub fn rollup_transaction_for_id_not_in_sequencer_block(_id: RollupId) -> Self { Self::E } pub fn invalid_rollup_ids_proof() -> Self { Self::E }
    pub fn upgrade_change_hashes(_e: ChangeHashError) -> Self { Self::E } pub fn extended_commit_info(_e: ExtendedCommitInfoError) -> Self { Self::E }
}
#[derive(Debug)] pub enum SequencerBlockError { E }
impl SequencerBlockError {
    pub fn invalid_block_hash(_n: usize) -> Self { Self::E } pub fn field_not_set(_f: &'static str) -> Self { Self::E } pub fn transaction_proof_invalid(_e: merkle::InvalidProof) -> Self { Self::E } pub fn id_proof_invalid(_e: merkle::InvalidProof) -> Self { Self::E }
    pub fn header(_e: HeaderError) -> Self { Self::E } pub fn parse_rollup_transactions(_e: RollupTransactionsError) -> Self { Self::E } pub fn invalid_rollup_transactions_root() -> Self { Self::E } pub fn rollup_transactions_not_in_sequencer_block() -> Self { Self::E }
    pub fn invalid_rollup_ids_proof() -> Self { Self::E } pub fn upgrade_change_hashes(_e: ChangeHashError) -> Self { Self::E } pub fn extended_commit_info(_e: ExtendedCommitInfoError) -> Self { Self::E }
}
'''

HARNESS = r'''
    /// 32-byte values in this harness differ from zero only in their first 6 bytes (by construction of the inputs and of the digest stand-in); derived `==` on [u8; 32] would need a 33-fold memcmp unwinding
    fn eq32(a: &[u8; 32], b: &[u8; 32]) -> bool { a[0] == b[0] && a[1] == b[1] && a[2] == b[2] && a[3] == b[3] && a[4] == b[4] && a[5] == b[5] && a[31] == b[31] }
    fn any32() -> [u8; 32] { let mut x = [0u8; 32]; x[0] = kani::any(); x[1] = kani::any(); x }
    fn any_raw_block() -> raw::SequencerBlock {
        let n: usize = kani::any(); kani::assume(n <= 2);
        let mut rts = Vec::new(); let mut i = 0;
        while i < n { let mut txs = Vec::new(); let k: usize = kani::any(); kani::assume(k >= 1 && k <= 2); let mut j = 0; while j < k { txs.push(Bytes([kani::any(), kani::any()])); j += 1; }
            rts.push(raw::RollupTransactions { rollup_id: RollupId([kani::any()]), transactions: txs, proof: kani::any(), bad: kani::any() }); i += 1; }
        raw::SequencerBlock { block_hash: BlockHashBytes { ok: kani::any(), h: kani::any() },
            header: if kani::any() { Some(raw::SequencerBlockHeader { rollup_transactions_root: any32(), data_hash: any32(), height: kani::any(), bad: kani::any() }) } else { None },
            rollup_transactions: rts, rollup_transactions_proof: if kani::any() { Some(raw_primitive::Proof(kani::any())) } else { None }, rollup_ids_proof: if kani::any() { Some(raw_primitive::Proof(kani::any())) } else { None },
            upgrade_change_hashes: Vec::new(), extended_commit_info_with_proof: if kani::any() { Some(raw::ExtendedCommitInfoWithProof { info: kani::any(), proof: kani::any() }) } else { None } }
    }
    fn verified(proof: u8, leaf: [u8; 32], root: [u8; 32]) -> bool { let mut hit = false; let mut i = 0; while i < unsafe { merkle::N_VERIFY } { let c = unsafe { merkle::VERIFY[i] }.unwrap(); if c.verdict && c.proof == proof && eq32(&c.leaf, &leaf) && eq32(&c.root, &root) { hit = true; } i += 1; } hit }

    // ---- a decoded SequencerBlock is bound to its header: root, per-rollup data and rollup-id list are each proved against header.data_hash ----
    #[kani::proof]
    #[kani::unwind(6)]
    fn decoded_block_is_bound_to_its_header() {
        unsafe { merkle::N_VERIFY = 0; merkle::VERIFY = [None; 4]; }
        let raw = any_raw_block();
        match SequencerBlock::try_from_raw(raw) {        // total: any wire value either decodes or is refused
            Ok(b) => {
                let h = raw.header.unwrap(); let dh = h.data_hash;
                assert!(eq32(&b.header.data_hash, &dh) && eq32(&b.header.rollup_transactions_root, &h.rollup_transactions_root));
                let p_txs = raw.rollup_transactions_proof.unwrap().0; let p_ids = raw.rollup_ids_proof.unwrap().0;
                // (1) the header's rollup-transactions root is in the data hash
                assert!(verified(p_txs, Sha256::digest(h.rollup_transactions_root), dh));
                // (2) THE BLOCK'S OWN rollup data, leaf by leaf  id ‖ MTH(data)  in the stored order, hashes to a root that is in the data hash under the same proof
                let mut spec = merkle::Tree::new(); let mut i = 0;
                while i < b.rollup_transactions.n { let rt = b.rollup_transactions.vs[i]; assert!(rt.rollup_id == b.rollup_transactions.ks[i]); let r = merkle::Tree::from_leaves(rt.transactions()).root(); spec.build_leaf().write(rt.rollup_id.as_ref()).write(&r); i += 1; }
                assert!(verified(p_txs, Sha256::digest(spec.root()), dh));
                // (3) the list of rollup ids of the block is in the data hash
                let mut ids = merkle::Tree::new(); let mut i = 0; while i < b.rollup_transactions.n { ids.build_leaf().write(b.rollup_transactions.ks[i].as_ref()); i += 1; }
                assert!(verified(p_ids, Sha256::digest(ids.root()), dh));
                // (4) nothing was dropped or invented: the rollups are those of the message, with their own data
                let mut i = 0; while i < raw.rollup_transactions.n { let w = raw.rollup_transactions.items[i]; let mut found = false; let mut j = 0;
                    while j < b.rollup_transactions.n { if b.rollup_transactions.ks[j] == w.rollup_id { found = true; } j += 1; } assert!(found); i += 1; }
                assert!(b.rollup_transactions.n <= raw.rollup_transactions.n);
                // (5) extended commit info, if any, was proved against the same data hash
                if let Some(e) = raw.extended_commit_info_with_proof { assert!(verified(e.proof, Sha256::digest(Bytes([e.info, 0])), dh)); }
            }
            Err(_) => {}
        }
    }
    // ---- a decoded FilteredSequencerBlock: every rollup's data is audited with ITS OWN proof against the header's rollup-transactions root, which itself is in the data hash ----
    #[kani::proof]
    #[kani::unwind(6)]
    fn decoded_filtered_block_is_bound_to_its_header() {
        unsafe { merkle::N_VERIFY = 0; merkle::VERIFY = [None; 4]; merkle::N_AUDITS = 0; merkle::AUDITS = [None; 3]; }
        let rb = any_raw_block();
        let nid: usize = kani::any(); kani::assume(nid <= 2);
        let mut ids = Vec::new(); let mut i = 0; while i < nid { ids.push(raw::RawRollupId { id: kani::any(), bad: kani::any() }); i += 1; }
        let raw = raw::FilteredSequencerBlock { block_hash: rb.block_hash, header: rb.header, rollup_transactions: rb.rollup_transactions, rollup_transactions_proof: rb.rollup_transactions_proof, all_rollup_ids: ids,
                                                rollup_ids_proof: rb.rollup_ids_proof, upgrade_change_hashes: Vec::new(), extended_commit_info_with_proof: rb.extended_commit_info_with_proof };
        match FilteredSequencerBlock::try_from_raw(raw) {
            Ok(b) => {
                let h = raw.header.unwrap(); let dh = h.data_hash;
                assert!(verified(raw.rollup_transactions_proof.unwrap().0, Sha256::digest(h.rollup_transactions_root), dh));
                let mut i = 0;
                while i < b.rollup_transactions.n {
                    let rt = b.rollup_transactions.vs[i]; let mtd = merkle::Tree::from_leaves(rt.transactions()).root();
                    let mut hit = false; let mut a = 0;
                    while a < unsafe { merkle::N_AUDITS } { let c = unsafe { merkle::AUDITS[a] }.unwrap();
                        if c.verdict && c.proof == rt.proof.0 && eq32(&c.root, &h.rollup_transactions_root) && c.n == 5 && c.leaf[0] == rt.rollup_id.0[0] && c.leaf[1] == mtd[0] && c.leaf[2] == mtd[1] && c.leaf[3] == mtd[2] && c.leaf[4] == mtd[3] { hit = true; } a += 1; }
                    assert!(hit); i += 1;
                }
                let mut t = merkle::Tree::new(); let mut i = 0; while i < b.all_rollup_ids.n { t.build_leaf().write(b.all_rollup_ids.items[i].as_ref()); i += 1; }
                assert!(verified(raw.rollup_ids_proof.unwrap().0, Sha256::digest(t.root()), dh));
                assert!(b.all_rollup_ids.n == raw.all_rollup_ids.n);
                if let Some(e) = raw.extended_commit_info_with_proof { assert!(verified(e.proof, Sha256::digest(Bytes([e.info, 0])), dh)); }
            }
            Err(_) => {}
        }
    }
    #[kani::proof]
    #[kani::unwind(6)]
    fn canary_block_accepted_reachable() {
        unsafe { merkle::N_VERIFY = 0; merkle::VERIFY = [None; 4]; }
        assert!(SequencerBlock::try_from_raw(any_raw_block()).is_err());     // must FAIL
    }
'''

UNIT = dict(
    name="c07_block_decode", mode="K", properties=["C07", "C17"],
    shim_files=["shims/common.rs"],
    prelude=PRELUDE,
    items=[
        dict(file=V, path="fn derive_merkle_tree_from_rollup_txs"),
        dict(file=M, path="fn are_rollup_ids_included"),
        dict(file=M, path="fn are_rollup_txs_included"),
        dict(file=S, path="impl SequencerBlock/fn try_from_raw"),
        dict(file=M, path="fn do_rollup_transactions_match_root"),
        dict(file=S, path="impl FilteredSequencerBlock/fn try_from_raw", rewrites=[dict(rule="subst", id="R4.super_path", old="super::do_rollup_transactions_match_root", new="do_rollup_transactions_match_root", count=1)]),
    ],
    harness=HARNESS,
    harnesses=[
        dict(name="decoded_block_is_bound_to_its_header", obligation="SequencerBlock::try_from_raw::total+ensures#Ok=>root+own-rollup-data+own-id-list-each-proved-against-header.data_hash",
             bounded="blocks with at most 2 rollups of 1-2 payloads each; no upgrade change hashes"),
        dict(name="decoded_filtered_block_is_bound_to_its_header", obligation="FilteredSequencerBlock::try_from_raw::total+ensures#Ok=>root-in-data-hash+each-rollup-audited-with-own-proof-against-that-root+id-list-proved",
             bounded="at most 2 rollups of 1-2 payloads each, at most 2 listed rollup ids"),
        dict(name="canary_block_accepted_reachable", expect="fail"),
    ],
    harness_timeout=1200,
    assumptions=["merkle::Proof::verify is an opaque logged predicate with an arbitrary verdict (what a verifying proof means is C08); trees remember their leaves and digest them deterministically; Sha256::digest is an injective embedding",
                 "raw (prost) types, SequencerBlockHeader / RollupTransactions / ExtendedCommitInfoWithProof decoders are stand-ins with the field names of the real ones; IndexMap / Vec are fixed-capacity stand-ins",
                 "NOT under contract: SubmittedRollupData / SubmittedMetadata decoders, the prost byte-level decoders"],
)
