# Lifting lemma for C01 / C18 over the per-call contracts discharged by the Kani units (c01_transfer, c01_fees, c01_end_block, c04_bridge, c18_*): no function of /repo is cut here.
LEMMAS = r'''
/// Per-asset aggregate view of the ledger: what all accounts hold, what sits in IBC escrow, the block's collected fees, and how much of a foreign asset has been minted.
pub struct Ledger { pub held: int, pub escrow: int, pub block_fees: int, pub minted: int }

/// One state-changing call, as far as this asset's aggregates are concerned; each variant is the postcondition of the named function under contract.
pub enum Op {
    Move { amount: nat },                    // Transfer / BridgeLock / BridgeUnlock / BridgeTransfer: debit one account, credit another by the same amount
    PayFee { fee: nat },                     // FeeHandler::pay_fee + add_fee_to_block_fees: signer debited, block fees credited, same amount
    EndBlock,                                // App::end_block: every asset's block-fee total credited to the fee recipient, map cleared
    WithdrawNative { amount: nat },          // Ics20Withdrawal of a sequencer-origin asset: account debited, escrow credited
    WithdrawForeign { amount: nat },         // Ics20Withdrawal of a foreign asset: burned
    ReturnNative { amount: nat },            // receive_tokens / refund of a sequencer-origin asset: escrow debited (Err if insufficient), account credited
    ReceiveForeign { amount: nat },          // receive_tokens / refund of a foreign asset: minted
    Failed,                                  // any call that returned Err: its delta is dropped (c03_tx), nothing changes
}
pub open spec fn enabled(l: Ledger, o: Op) -> bool {
    match o {
        Op::Move { amount } => amount <= l.held,
        Op::PayFee { fee } => fee <= l.held,
        Op::WithdrawNative { amount } => amount <= l.held,
        Op::WithdrawForeign { amount } => amount <= l.held && amount <= l.minted,
        Op::ReturnNative { amount } => amount <= l.escrow,          // decrease_ibc_channel_balance: insufficient escrow is an error, never a wrap
        _ => true,
    }
}
pub open spec fn apply(l: Ledger, o: Op) -> Ledger {
    if !enabled(l, o) { l } else { match o {
        Op::Move { amount } => l,
        Op::PayFee { fee } => Ledger { held: l.held - fee, block_fees: l.block_fees + fee, ..l },
        Op::EndBlock => Ledger { held: l.held + l.block_fees, block_fees: 0, ..l },
        Op::WithdrawNative { amount } => Ledger { held: l.held - amount, escrow: l.escrow + amount, ..l },
        Op::WithdrawForeign { amount } => Ledger { held: l.held - amount, minted: l.minted - amount, ..l },
        Op::ReturnNative { amount } => Ledger { held: l.held + amount, escrow: l.escrow - amount, ..l },
        Op::ReceiveForeign { amount } => Ledger { held: l.held + amount, minted: l.minted + amount, ..l },
        Op::Failed => l,
    } }
}
pub open spec fn run(l0: Ledger, ops: Seq<Op>) -> Ledger decreases ops.len()
{ if ops.len() == 0 { l0 } else { apply(run(l0, ops.drop_last()), ops.last()) } }

/// what is conserved: everything held, escrowed or collected as fees equals the initial supply plus what was minted for foreign assets
pub open spec fn conserved(l: Ledger, l0: Ledger) -> bool {
    &&& l.held + l.escrow + l.block_fees - l.minted == l0.held + l0.escrow + l0.block_fees - l0.minted
    &&& l.held >= 0 && l.escrow >= 0 && l.block_fees >= 0 && l.minted >= 0
}
pub proof fn lemma_step(l: Ledger, l0: Ledger, o: Op)
    requires conserved(l, l0),
    ensures conserved(apply(l, o), l0)
{ }
/// For every block and every history of blocks (any mix of actions, failures, IBC receipts and refunds): nothing is created or destroyed except foreign assets
/// minted on receipt and burned on withdrawal; the escrow never goes negative (is never over-released); after EndBlock no fee is left uncredited.
pub proof fn lemma_ledger_conservation(l0: Ledger, ops: Seq<Op>)
    requires l0.held >= 0 && l0.escrow >= 0 && l0.block_fees >= 0 && l0.minted >= 0,
    ensures conserved(run(l0, ops), l0),
            ops.len() > 0 && ops.last() == Op::EndBlock ==> run(l0, ops).block_fees == 0
    decreases ops.len()
{
    if ops.len() > 0 {
        lemma_ledger_conservation(l0, ops.drop_last());
        lemma_step(run(l0, ops.drop_last()), l0, ops.last());
    }
}
pub proof fn witness_fee_routed()
{
    let l0 = Ledger { held: 10, escrow: 0, block_fees: 0, minted: 0 };
    let ops = seq![Op::PayFee { fee: 3 }, Op::EndBlock];
    assert(ops.drop_last() =~= seq![Op::PayFee { fee: 3 }]);
    assert(ops.drop_last().drop_last() =~= Seq::<Op>::empty());
    assert(run(l0, ops.drop_last().drop_last()) == l0);
    assert(run(l0, ops.drop_last()).block_fees == 3);
    assert(run(l0, ops).held == 10 && run(l0, ops).block_fees == 0);
}
'''
UNIT = dict(
    name="c01_ledger", mode="V", properties=["C01", "C18"],
    prelude="", items=[], lemmas=LEMMAS,
    assumptions=["`apply` transcribes, per asset and in aggregate, the postconditions proved by Kani on the real functions (units c01_transfer, c01_fees, c01_end_block, c04_bridge, c18_ics20, c18_withdrawal, c18_refund); the transcription is trusted, the per-account frame conditions of those contracts are what justifies aggregating",
                 "a call that returns Err leaves no effect because it runs in a delta that is dropped (unit c03_tx)"],
)
