F = "crates/astria-sequencer-relayer/src/relayer/write/conversion.rs"
W = "crates/astria-sequencer-relayer/src/relayer/write/mod.rs"

PRELUDE = r'''
use std::pin::Pin;
use std::task::Poll;
pub const MAXB: usize = 3;
#[derive(Clone, Copy, Debug, PartialEq, Eq, PartialOrd, Ord)] pub struct SequencerHeight(pub u64);
impl std::fmt::Display for SequencerHeight { fn fmt(&self, _f: &mut std::fmt::Formatter<'_>) -> std::fmt::Result { Ok(()) } }
#[derive(Clone, Copy, Debug, PartialEq, Eq)] pub struct SequencerBlock { pub height: u64, pub id: u8 }
impl SequencerBlock { pub fn height(&self) -> SequencerHeight { SequencerHeight(self.height) } }
#[derive(Clone, Copy, Debug, PartialEq, Eq)] pub struct IncludeRollup(pub u8);
pub struct Metrics;
impl Metrics { pub fn record_celestia_payload_creation_latency(&self, _d: u8) {} }
pub struct Instant; impl Instant { pub fn elapsed(&self) -> u8 { 0 } }
pub fn vx_instant_now() -> Instant { Instant }
pub static METRICS: Metrics = Metrics;

/// Input stand-in: the ordered list of blocks added so far (extend_from_sequencer_block / try_into_payload are
/// iterator + protobuf + brotli code outside this unit)
#[derive(Clone, Copy, Debug, Default, PartialEq, Eq)]
pub struct Input { pub blocks: [Option<(u64, u8)>; MAXB], pub n: usize }
impl Input {
    pub fn new() -> Self { Self::default() }
    pub fn num_blocks(&self) -> usize { self.n }
    pub fn extend_from_sequencer_block(&mut self, block: SequencerBlock, _f: &IncludeRollup) { assert!(self.n < MAXB); self.blocks[self.n] = Some((block.height, block.id)); self.n += 1; }
    /// the payload built from an input: arbitrary sizes, but it records which input it was built from
    pub fn try_into_payload(self) -> Result<Payload, TryIntoPayloadError> {
        if kani::any() { return Err(TryIntoPayloadError::PayloadSize); }
        Ok(Payload { compressed_size: kani::any(), uncompressed_size: kani::any(), built_from: self, blobs: if self.n == 0 { 0 } else { 1 } })
    }
}
#[derive(Clone, Copy, Debug, Default, PartialEq, Eq)]
pub struct Payload { pub compressed_size: usize, pub uncompressed_size: usize, pub built_from: Input, pub blobs: usize }
impl Payload { pub fn new() -> Self { Self::default() } pub fn is_empty(&self) -> bool { self.blobs == 0 } pub fn num_blobs(&self) -> usize { self.blobs }
    pub fn compressed_size(&self) -> usize { self.compressed_size } pub fn uncompressed_size(&self) -> usize { self.uncompressed_size } }
#[derive(Debug)] pub enum TryIntoPayloadError { PayloadSize }
pub struct Submission { pub input: Input, pub payload: Payload }
pub struct TakeSubmission<'a> { pub inner: Option<&'a mut NextSubmission> }
impl<'a> TakeSubmission<'a> { pub fn project(self: Pin<&mut Self>) -> &mut Self { self.get_mut() } }
impl From<TryIntoPayloadError> for TryAddError { fn from(e: TryIntoPayloadError) -> Self { TryAddError::IntoPayload(e) } }
pub mod conversion { pub use crate::TryAddError; }
impl From<TryAddError> for eyre::Report { fn from(e: TryAddError) -> Self { std::mem::forget(e); eyre::Report::new() } }   // thiserror's Error impl
pub struct CelestiaClientBuilder; pub struct CancellationToken; pub struct SubmissionStateAtStartup; pub struct RelayerState;
pub mod mpsc { pub struct Receiver<T>(pub std::marker::PhantomData<T>); }
pub use std::sync::Arc;
pub const MAX_PAYLOAD_SIZE_BYTES: usize = 0x1F_FFFF;   // the real constant is compared only
'''

HARNESS = r'''
    fn any_next() -> NextSubmission {
        let mut input = Input::new();
        let n: usize = kani::any(); kani::assume(n < MAXB);
        let mut i = 0; while i < n { input.blocks[i] = Some((kani::any(), kani::any())); i += 1; } input.n = n;
        // invariant of NextSubmission: the payload is the one built from the input and is within the bound
        let payload = Payload { compressed_size: kani::any(), uncompressed_size: kani::any(), built_from: input, blobs: if n == 0 { 0 } else { 1 } };
        kani::assume(payload.compressed_size <= MAX_PAYLOAD_SIZE_BYTES);
        NextSubmission { rollup_filter: IncludeRollup(kani::any()), input, payload, metrics: &METRICS }
    }

    #[kani::proof]
    #[kani::unwind(5)]
    fn try_add_contract() {
        let mut ns = any_next();
        let (input0, payload0) = (ns.input, ns.payload);
        let b = SequencerBlock { height: kani::any(), id: kani::any() };
        let r = ns.try_add(b);
        match r {
            Ok(()) => {
                // the block is appended exactly once, after the earlier ones; the payload is the one built from that very input and within the bound
                assert!(ns.input.n == input0.n + 1 && ns.input.blocks[input0.n] == Some((b.height, b.id)));
                let mut i = 0; while i < input0.n { assert!(ns.input.blocks[i] == input0.blocks[i]); i += 1; }
                assert!(ns.payload.built_from == ns.input);
                assert!(ns.payload.compressed_size <= MAX_PAYLOAD_SIZE_BYTES);
            }
            Err(e) => {
                // refused: the accumulated batch is untouched, and a block that did not fit is handed back unchanged
                assert!(ns.input == input0 && ns.payload == payload0);
                match e {
                    TryAddError::Full(back) => { assert!(*back == b); assert!(input0.n >= 1); }
                    TryAddError::OversizedBlock { sequencer_height, .. } => { assert!(input0.n == 0 && sequencer_height == SequencerHeight(b.height)); }
                    TryAddError::IntoPayload(_) => {}
                }
            }
        }
    }
    #[kani::proof]
    #[kani::unwind(5)]
    fn take_moves_batch_out_atomically() {
        let mut ns = any_next();
        let (input0, payload0) = (ns.input, ns.payload);
        let mut fut = TakeSubmission { inner: Some(&mut ns) };
        let waker = std::task::Waker::noop();
        let mut cx = std::task::Context::from_waker(&waker);
        let out = match Pin::new(&mut fut).poll(&mut cx) { Poll::Ready(v) => v, Poll::Pending => { assert!(false); None } };
        match out {
            Some(s) => { assert!(s.input == input0 && s.payload == payload0 && input0.n >= 1); }   // input and payload leave together
            None => assert!(payload0.blobs == 0),
        }
        assert!(ns.input == Input::new() && ns.payload == Payload::new());                          // and nothing of the batch stays behind
    }
    // ---- BlobSubmitter::add_sequencer_block_to_next_submission: a block that does not fit is parked, never dropped ----
    #[kani::proof]
    #[kani::unwind(5)]
    #[kani::stub(alloc::fmt::format, crate::vx_stub_format)]
    fn add_block_parks_what_does_not_fit() {
        let ns = any_next();
        let (input0, payload0) = (ns.input, ns.payload);
        let mut sub = BlobSubmitter { client_builder: CelestiaClientBuilder, blocks: mpsc::Receiver(std::marker::PhantomData), next_submission: ns, state: Arc::new(RelayerState),
                                      submission_state_at_startup: None, submitter_shutdown_token: CancellationToken, pending_block: None, metrics: &METRICS };
        assert!(sub.has_capacity());                                   // the run loop reads the channel only in this state
        let b = SequencerBlock { height: kani::any(), id: kani::any() };
        let r = sub.add_sequencer_block_to_next_submission(b);
        let appended = sub.next_submission.input.n == input0.n + 1 && sub.next_submission.input.blocks[input0.n] == Some((b.height, b.id));
        let parked = sub.pending_block == Some(b);
        match r {
            // accepted: the block is in exactly one of the batch and the pending slot, and the channel is not read again while it is pending
            Ok(()) => { assert!(appended != parked);
                        if parked { assert!(sub.next_submission.input == input0 && sub.next_submission.payload == payload0 && !sub.has_capacity()); }
                        else { assert!(sub.pending_block.is_none() && sub.has_capacity()); } }
            // an error is fatal for the task (the caller breaks out of its loop); nothing was changed
            Err(_) => { assert!(sub.next_submission.input == input0 && sub.pending_block.is_none()); }
        }
        std::mem::forget(sub);
    }
    #[kani::proof]
    #[kani::unwind(5)]
    fn canary_try_add_ok_reachable() {
        let mut ns = any_next();
        assert!(ns.try_add(SequencerBlock { height: kani::any(), id: kani::any() }).is_err());   // must FAIL
    }
'''

UNIT = dict(
    name="c12_batching", mode="K", properties=["C12"],
    shim_files=["shims/common.rs"],
    prelude=PRELUDE,
    use="use std::future::Future;",
    items=[
        dict(file=F, path="struct NextSubmission"),
        dict(file=F, path="enum TryAddError", keep_derives={"Debug"},
             rewrites=[dict(rule="regex", id="R1.from_attr_text", old=r"IntoPayload\(\s*TryIntoPayloadError\)", new="IntoPayload(TryIntoPayloadError)", count=1)]),
        dict(file=F, path="impl NextSubmission/fn try_add",
             rewrites=[dict(rule="subst", id="R8.hoist_instant_now", old="std::time::Instant::now()", new="vx_instant_now()")]),
        dict(file=F, path="impl NextSubmission/fn take"),
        dict(file=F, path="impl Future for TakeSubmission<'_>"),
        dict(file=W, path="struct BlobSubmitter", rewrites=[dict(rule="subst", id="relayer-state-type", old="Arc<super::State>", new="Arc<RelayerState>", count=1)]),
        dict(file=W, path="impl BlobSubmitter/fn add_sequencer_block_to_next_submission"),
        dict(file=W, path="impl BlobSubmitter/fn has_capacity"),
    ],
    harness=HARNESS,
    harnesses=[
        dict(name="try_add_contract", obligation="NextSubmission::try_add::ensures#Ok=>appended-once+payload-of-that-input-within-bound;Err=>unchanged+block-handed-back",
             bounded="batches of at most 3 blocks (inputs are fixed-capacity lists; the function itself is loop-free)"),
        dict(name="take_moves_batch_out_atomically", obligation="TakeSubmission::poll::ensures#input-and-payload-leave-together+nothing-left", bounded="batches of at most 3 blocks"),
        dict(name="add_block_parks_what_does_not_fit", obligation="BlobSubmitter::add_sequencer_block_to_next_submission::ensures#block-in-exactly-one-of-batch/pending+no-capacity-while-pending", bounded="batches of at most 3 blocks"),
        dict(name="canary_try_add_ok_reachable", expect="fail"),
    ],
    assumptions=["Input::extend_from_sequencer_block and Input::try_into_payload (rollup filter, split_for_celestia, protobuf, brotli, Blob::new) are stand-ins: the input is the ordered list of blocks, the payload has arbitrary sizes and remembers the input it was built from",
                 "pin_project's TakeSubmission struct is hand-written in the prelude (same field); impl From<TryIntoPayloadError> for TryAddError (thiserror #[from]) provided by the shim",
                 "NOT under contract: the select loop of BlobSubmitter::run (re-adding the pending block after a take, skip of already submitted heights), height ordering of the channel, relayer-encode vs conductor-decode agreement"],
)
