# Transaction::try_from_raw(_ref) / into_raw / to_raw: the only way to obtain a Transaction verifies the signature over the very bytes the body is decoded from.  properties: "C02", "C17"
T = "crates/astria-core/src/protocol/transaction/v1/mod.rs"

PRELUDE = r'''
pub mod bytes { pub use crate::Bytes; }
/// byte strings: two content bytes (the functions under contract only move, clone and hand them to the decoders below)
#[derive(Clone, Copy, Debug, PartialEq, Eq)] pub struct Bytes(pub [u8; 2]);
impl std::ops::Deref for Bytes { type Target = [u8]; fn deref(&self) -> &[u8] { &self.0 } }
impl Bytes { pub fn copy_from_slice(s: &[u8]) -> Bytes { Bytes([s[0], s[1]]) } }
pub mod crypto { #[derive(Debug)] pub struct Error; }
#[derive(Clone, Copy, Debug, PartialEq, Eq)] pub struct Signature(pub [u8; 2]);
impl TryFrom<&[u8]> for Signature { type Error = crypto::Error; fn try_from(b: &[u8]) -> Result<Self, crypto::Error> { if b[0] == 0xff { Err(crypto::Error) } else { Ok(Signature([b[0], b[1]])) } } }   // some byte strings are not signatures
impl Signature { pub fn to_bytes(&self) -> [u8; 2] { self.0 } }
#[derive(Clone, Copy, Debug, PartialEq, Eq)] pub struct VerificationKey(pub [u8; 2]);
impl TryFrom<&[u8]> for VerificationKey { type Error = crypto::Error; fn try_from(b: &[u8]) -> Result<Self, crypto::Error> { if b[0] == 0xfe { Err(crypto::Error) } else { Ok(VerificationKey([b[0], b[1]])) } } }
/// ed25519 verification: an opaque predicate with an arbitrary verdict, logged with exactly what it was asked
#[derive(Clone, Copy, Debug, PartialEq, Eq)] pub struct VerifyCall { pub key: [u8; 2], pub sig: [u8; 2], pub msg: [u8; 2], pub verdict: bool }
pub static mut VERIFY_LOG: [Option<VerifyCall>; 2] = [None; 2];
pub static mut N_VERIFY: usize = 0;
impl VerificationKey {
    pub fn verify(&self, sig: &Signature, msg: &[u8]) -> Result<(), crypto::Error> {
        let verdict: bool = kani::any();
        unsafe { assert!(N_VERIFY < 2); VERIFY_LOG[N_VERIFY] = Some(VerifyCall { key: self.0, sig: sig.0, msg: [msg[0], msg[1]], verdict }); N_VERIFY += 1; }
        if verdict { Ok(()) } else { Err(crypto::Error) }
    }
    pub fn to_bytes(&self) -> [u8; 2] { self.0 }
}
pub mod pbjson_types { #[derive(Clone, Copy, Debug, PartialEq, Eq)] pub struct Any { pub type_url: u8, pub value: crate::Bytes } }
pub mod raw {
    #[derive(Clone, Copy, Debug, PartialEq, Eq)] pub struct Transaction { pub signature: crate::Bytes, pub public_key: crate::Bytes, pub body: Option<crate::pbjson_types::Any> }
    pub struct TransactionBody; impl TransactionBody { pub fn type_url() -> u8 { 7 } }
}
#[derive(Debug)] pub struct TransactionBodyError;
/// decoded body: a function of the body bytes (the decoder refuses a wrong type url and some byte strings)
#[derive(Clone, Copy, Debug, PartialEq, Eq)] pub struct TransactionBody { pub decoded_from: [u8; 2] }
impl TransactionBody { pub fn try_from_any(any: pbjson_types::Any) -> Result<Self, TransactionBodyError> { if any.type_url != raw::TransactionBody::type_url() || any.value.0[0] == 0xfd { Err(TransactionBodyError) } else { Ok(TransactionBody { decoded_from: any.value.0 }) } } }
#[derive(Debug)] pub enum TransactionError { Signature, Body, Verification, VerificationKey, UnsetBody }
impl TransactionError {
    pub fn signature(_e: crypto::Error) -> Self { TransactionError::Signature } pub fn body(_e: TransactionBodyError) -> Self { TransactionError::Body }
    pub fn verification(_e: crypto::Error) -> Self { TransactionError::Verification } pub fn verification_key(_e: crypto::Error) -> Self { TransactionError::VerificationKey } pub fn unset_body() -> Self { TransactionError::UnsetBody }
}
pub trait Protobuf: Sized { type Error; type Raw; fn try_from_raw_ref(raw: &Self::Raw) -> Result<Self, Self::Error>; fn try_from_raw(raw: Self::Raw) -> Result<Self, Self::Error>; fn into_raw(self) -> Self::Raw; fn to_raw(&self) -> Self::Raw; }
'''

HARNESS = r'''
    fn any_raw() -> raw::Transaction {
        raw::Transaction { signature: Bytes(kani::any()), public_key: Bytes(kani::any()), body: if kani::any() { Some(pbjson_types::Any { type_url: kani::any(), value: Bytes(kani::any()) }) } else { None } }
    }
    fn reset() { unsafe { N_VERIFY = 0; VERIFY_LOG = [None; 2]; } }
    fn check(raw: &raw::Transaction, r: &Result<Transaction, TransactionError>) {
        if let Ok(tx) = r {
            let body = raw.body.unwrap();
            // exactly one signature check was made: with the key and signature of this message, over exactly the body bytes, and it succeeded
            assert!(unsafe { N_VERIFY } == 1);
            let c = unsafe { VERIFY_LOG[0] }.unwrap();
            assert!(c.verdict && c.key == raw.public_key.0 && c.sig == raw.signature.0 && c.msg == body.value.0);
            // the transaction that comes out is the one that was signed: body decoded from those bytes, signer = that key
            assert!(tx.body.decoded_from == body.value.0 && tx.body_bytes.0 == body.value.0 && tx.verification_key.0 == raw.public_key.0 && tx.signature.0 == raw.signature.0);
        }
    }
    #[kani::proof]
    #[kani::unwind(4)]
    fn transaction_decode_verifies_signature_over_its_own_body_bytes() {
        let raw = any_raw();
        reset(); let r1 = <Transaction as Protobuf>::try_from_raw(raw); check(&raw, &r1);
        let n1 = unsafe { N_VERIFY }; let v1 = unsafe { VERIFY_LOG[0] };
        reset(); let r2 = <Transaction as Protobuf>::try_from_raw_ref(&raw); check(&raw, &r2);
        // both decoders make the same decision (given the same verdict of the signature check)
        if n1 == 1 && unsafe { N_VERIFY } == 1 && v1.unwrap().verdict == unsafe { VERIFY_LOG[0] }.unwrap().verdict { assert!(r1.is_ok() == r2.is_ok()); }
        assert!((n1 == 0) == (unsafe { N_VERIFY } == 0));
        // accepted values are self-consistent: they re-encode to the message they came from
        if let Ok(tx) = r1 { assert!(tx.to_raw() == raw); assert!(tx.into_raw() == raw); }
    }
    #[kani::proof]
    #[kani::unwind(4)]
    fn canary_transaction_accepted_reachable() { reset(); assert!(<Transaction as Protobuf>::try_from_raw(any_raw()).is_err()); }    // must FAIL
'''

UNIT = dict(
    name="c02_signature", mode="K", properties=["C02", "C17"],
    shim_files=["shims/common.rs"],
    prelude=PRELUDE,
    items=[
        dict(file=T, path="struct Transaction", keep_derives={"Clone", "Debug"}),
        dict(file=T, path="impl Protobuf for Transaction"),
    ],
    harness=HARNESS,
    harnesses=[
        dict(name="transaction_decode_verifies_signature_over_its_own_body_bytes", obligation="Transaction::try_from_raw+try_from_raw_ref::ensures#Ok=>one-successful-signature-check-with-this-key-and-signature-over-exactly-the-body-bytes+body-decoded-from-those-bytes+roundtrip"),
        dict(name="canary_transaction_accepted_reachable", expect="fail"),
    ],
    assumptions=["ed25519 verification is an opaque logged predicate with an arbitrary verdict; Signature/VerificationKey/TransactionBody decoders are functions of 2-byte strings that refuse some inputs; prost/pbjson types are stand-ins",
                 "NOT under contract: TransactionBody::try_from_raw (action decoding), CheckedTransaction::new (chain id, nonce, size checks)"],
)
