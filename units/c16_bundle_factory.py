F = "crates/astria-composer/src/executor/bundle_factory/mod.rs"

PRE = r'''
#[allow(unused_macros)]
macro_rules! trace { ($($t:tt)*) => {} }
'''

PRELUDE = r'''
// ---- shim environment (trusted, hand written): stand-ins for astria-core types -------------
#[derive(Debug)] pub struct RollupId { pub inner: [u8; 32] }
#[derive(Debug)] pub struct Denom { pub id: u64 }
#[derive(Debug)] pub struct RollupDataSubmission { pub rollup_id: RollupId, pub data: Vec<u8>, pub fee_asset: Denom }
#[derive(Debug)] pub enum Action { RollupDataSubmission(RollupDataSubmission) }
#[derive(Debug)] pub struct RollupCounts { pub ghost_unused: u8 }   // stands for HashMap<RollupId, usize>; metrics only

pub uninterp spec fn spec_encoded_len(a: RollupDataSubmission) -> usize;
pub uninterp spec fn spec_with_ibc_prefixed(a: RollupDataSubmission) -> RollupDataSubmission;

#[verifier::external_body]
pub fn encoded_len(action: &RollupDataSubmission) -> (r: usize)
    ensures r == spec_encoded_len(*action)
{ unimplemented!() }

#[verifier::external_body]
pub fn with_ibc_prefixed(action: RollupDataSubmission) -> (r: RollupDataSubmission)
    ensures r == spec_with_ibc_prefixed(action)
{ unimplemented!() }

// R8 hoist of the metrics-only statement `self.rollup_counts.entry(..).and_modify(..).or_insert(1)`
#[verifier::external_body]
pub fn vx_bump_rollup_count(counts: &mut RollupCounts, id: &RollupId)
{ unimplemented!() }
#[verifier::external_body]
pub fn vx_new_rollup_counts() -> RollupCounts { unimplemented!() }

pub assume_specification<T> [core::mem::replace::<T>] (dest: &mut T, src: T) -> (r: T)
    ensures *final(dest) == src, r == *old(dest);

// ---- abstract view ----------------------------------------------------------------------------
pub open spec fn act_len(a: Action) -> int {
    match a { Action::RollupDataSubmission(s) => spec_encoded_len(s) as int }
}
pub open spec fn sum_len(s: Seq<Action>) -> int
    decreases s.len()
{
    if s.len() == 0 { 0 } else { sum_len(s.drop_last()) + act_len(s.last()) }
}
pub broadcast proof fn lemma_sum_push(s: Seq<Action>, a: Action)
    ensures #[trigger] sum_len(s.push(a)) == sum_len(s) + act_len(a)
{
    assert(s.push(a).drop_last() =~= s);
}
pub proof fn lemma_sum_nonneg(s: Seq<Action>)
    ensures sum_len(s) >= 0
    decreases s.len()
{
    if s.len() > 0 { lemma_sum_nonneg(s.drop_last()); }
}

impl SizedBundle {
    /// representation invariant of one bundle (property: size is the sum and never exceeds max)
    pub open spec fn wf(&self) -> bool {
        &&& self.curr_size as int == sum_len(self.buffer@)
        &&& self.curr_size <= self.max_size
        // a bundle limit of 2^64-1 bytes is not a configuration the composer can be given a payload for;
        // with it the saturating size arithmetic would lose track of the true sum
        &&& self.max_size < usize::MAX
    }
}

pub open spec fn flatten(q: Seq<SizedBundle>) -> Seq<Action>
    decreases q.len()
{
    if q.len() == 0 { Seq::empty() } else { flatten(q.drop_last()) + q.last().buffer@ }
}
pub broadcast proof fn lemma_flatten_push(q: Seq<SizedBundle>, b: SizedBundle)
    ensures #[trigger] flatten(q.push(b)) =~= flatten(q) + b.buffer@
{
    assert(q.push(b).drop_last() =~= q);
}
pub proof fn lemma_flatten_pop_front(q: Seq<SizedBundle>)
    requires q.len() > 0
    ensures flatten(q) =~= q[0].buffer@ + flatten(q.subrange(1, q.len() as int))
    decreases q.len()
{
    if q.len() == 1 {
        assert(q.drop_last() =~= Seq::<SizedBundle>::empty());
        assert(q.subrange(1, 1) =~= Seq::<SizedBundle>::empty());
        assert(flatten(q.drop_last()) =~= Seq::<Action>::empty());
    } else {
        let t = q.subrange(1, q.len() as int);
        lemma_flatten_pop_front(q.drop_last());
        assert(q.drop_last().subrange(1, q.len() - 1) =~= t.drop_last());
        assert(t.last() == q.last());
        assert(q.drop_last()[0] == q[0]);
    }
}

impl vstd::std_specs::convert::FromSpecImpl<FinishedQueueFull> for BundleFactoryError {
    open spec fn obeys_from_spec() -> bool { true }
    closed spec fn from_spec(v: FinishedQueueFull) -> Self { BundleFactoryError::FinishedQueueFull(Box::new(v)) }
}

impl BundleFactory {
    /// every accepted action, in acceptance order: finished bundles front to back, then the current one
    pub open spec fn accepted(&self) -> Seq<Action> {
        flatten(self.finished@) + self.curr_bundle.buffer@
    }
    pub open spec fn wf(&self) -> bool {
        &&& self.curr_bundle.wf()
        &&& forall|i: int| 0 <= i < self.finished@.len() ==> (#[trigger] self.finished@[i]).wf()
        &&& forall|i: int| 0 <= i < self.finished@.len() ==> (#[trigger] self.finished@[i]).max_size == self.curr_bundle.max_size
    }
}
'''

ITEMS = [
    dict(file=F, path="enum SizedBundleError"),
    dict(file=F, path="struct SizedBundle", keep_derives={"Debug"},
         rewrites=[dict(rule="subst", id="R7.rollup_counts_type", old="rollup_counts: HashMap<RollupId, usize>", new="rollup_counts: RollupCounts")]),
    dict(file=F, path="impl SizedBundle/fn new",
         rewrites=[dict(rule="subst", id="R7.rollup_counts_new", old="rollup_counts: HashMap::new()", new="rollup_counts: vx_new_rollup_counts()")],
         spec="""
    requires max_size < usize::MAX,
    ensures ret.wf(), ret.buffer@ =~= Seq::<Action>::empty(), ret.max_size == max_size, ret.curr_size == 0,
"""),
    dict(file=F, path="impl SizedBundle/fn try_push",
         rewrites=[dict(rule="subst", id="R8.hoist_rollup_counts",
                        old="""self.rollup_counts
            .entry(seq_action.rollup_id)
            .and_modify(|count| *count = count.saturating_add(1))
            .or_insert(1);""",
                        new="vx_bump_rollup_count(&mut self.rollup_counts, &seq_action.rollup_id);")],
         ghost=[("start", None, "broadcast use lemma_sum_push; proof { lemma_sum_nonneg(self.buffer@); }")],
         spec="""
    requires old(self).wf(),
    ensures
        final(self).wf(),
        final(self).max_size == old(self).max_size,
        // accepted iff it fits; appended at the end, nothing else touched
        ret is Ok <==> old(self).curr_size as int + spec_encoded_len(seq_action) as int <= old(self).max_size as int,
        ret is Ok ==> final(self).buffer@ =~= old(self).buffer@.push(Action::RollupDataSubmission(seq_action)),
        // refused: bundle untouched, the action is handed back, the reason is exact
        ret is Err ==> final(self).buffer@ =~= old(self).buffer@ && final(self).curr_size == old(self).curr_size,
        (ret matches Err(SizedBundleError::SequenceActionTooLarge(a))) <==> spec_encoded_len(seq_action) > old(self).max_size,
        ret matches Err(SizedBundleError::SequenceActionTooLarge(a)) ==> a == seq_action,
        ret matches Err(SizedBundleError::NotEnoughSpace(a)) ==> a == seq_action,
"""),
    dict(file=F, path="impl SizedBundle/fn flush",
         spec="""
    requires old(self).wf(),
    ensures
        ret == *old(self),
        final(self).wf(), final(self).buffer@ =~= Seq::<Action>::empty(), final(self).max_size == old(self).max_size,
"""),
    dict(file=F, path="enum BundleFactoryError"),
    dict(file=F, path="struct FinishedQueueFull"),
    dict(file=F, path="impl From<FinishedQueueFull> for BundleFactoryError/fn from"),
    dict(file=F, path="struct BundleFactory"),
    dict(file=F, path="impl BundleFactory/fn new",
         spec="""
    requires max_bytes_per_bundle < usize::MAX,
    ensures ret.wf(), ret.accepted() =~= Seq::<Action>::empty(), ret.finished@.len() == 0,
        ret.finished_queue_capacity == finished_queue_capacity, ret.curr_bundle.max_size == max_bytes_per_bundle,
"""),
    dict(file=F, path="impl BundleFactory/fn try_push",
         ghost=[("start", None, "broadcast use lemma_flatten_push; proof { lemma_flatten_push(self.finished@, self.curr_bundle); }")],
         spec="""
    requires old(self).wf(),
    ensures
        final(self).wf(),
        final(self).finished_queue_capacity == old(self).finished_queue_capacity,
        final(self).curr_bundle.max_size == old(self).curr_bundle.max_size,
        // accepted: appended exactly once at the end of the acceptance order
        ret is Ok ==> final(self).accepted() =~= old(self).accepted().push(Action::RollupDataSubmission(spec_with_ibc_prefixed(seq_action))),
        // refused: everything accepted so far untouched (bundles, their order, their sizes)
        ret is Err ==> final(self).finished@ =~= old(self).finished@ && final(self).curr_bundle.buffer@ =~= old(self).curr_bundle.buffer@
                       && final(self).curr_bundle.curr_size == old(self).curr_bundle.curr_size,
        // refused only when too large on its own, or when it does not fit and the finished queue is full
        ret is Err <==> (spec_encoded_len(spec_with_ibc_prefixed(seq_action)) > old(self).curr_bundle.max_size
                         || (old(self).curr_bundle.curr_size as int + spec_encoded_len(spec_with_ibc_prefixed(seq_action)) as int > old(self).curr_bundle.max_size as int
                             && old(self).finished@.len() >= old(self).finished_queue_capacity)),
        (ret matches Err(BundleFactoryError::SequenceActionTooLarge { .. })) <==> spec_encoded_len(spec_with_ibc_prefixed(seq_action)) > old(self).curr_bundle.max_size,
        // bundles already finished are never reordered or modified by a push
        ret is Ok ==> old(self).finished@.len() <= final(self).finished@.len()
                      && (forall|i: int| 0 <= i < old(self).finished@.len() ==> final(self).finished@[i] == old(self).finished@[i]),
"""),
    dict(file=F, path="impl BundleFactory/fn pop_now",
         rewrites=["R11"],
         ghost=[("start", None, "proof { if self.finished@.len() > 0 { lemma_flatten_pop_front(self.finished@); } }")],
         spec="""
    requires old(self).wf(),
    ensures
        final(self).wf(),
        ret.wf(),
        // emitted bundle is the oldest accepted prefix; what remains keeps its order
        ret.buffer@ + final(self).accepted() =~= old(self).accepted(),
        old(self).finished@.len() > 0 ==> ret == old(self).finished@[0] && final(self).finished@ =~= old(self).finished@.subrange(1, old(self).finished@.len() as int),
        old(self).finished@.len() == 0 ==> ret == old(self).curr_bundle,
        final(self).finished_queue_capacity == old(self).finished_queue_capacity,
        final(self).curr_bundle.max_size == old(self).curr_bundle.max_size,
"""),
    dict(file=F, path="impl BundleFactory/fn is_full",
         spec="""
    ensures ret == (self.finished@.len() >= self.finished_queue_capacity),
"""),
]

LEMMAS = r'''
// ---- lifting lemma: any push/pop history emits every accepted action exactly once, in order -----
// A history is modelled over the *contracts* above only: `emitted ++ accepted` is extended by
// exactly the accepted action on Ok, unchanged on Err, and pops move a prefix from accepted to emitted.
pub enum Op { Push { a: Action, ok: bool }, Pop { n: nat } }

pub open spec fn step_emitted(em: Seq<Action>, acc: Seq<Action>, op: Op) -> Seq<Action> {
    match op {
        Op::Push { a, ok } => em,
        Op::Pop { n } => if n <= acc.len() { em + acc.subrange(0, n as int) } else { em },
    }
}
pub open spec fn step_accepted(em: Seq<Action>, acc: Seq<Action>, op: Op) -> Seq<Action> {
    match op {
        Op::Push { a, ok } => if ok { acc.push(a) } else { acc },
        Op::Pop { n } => if n <= acc.len() { acc.subrange(n as int, acc.len() as int) } else { acc },
    }
}
pub open spec fn pushed_ok(ops: Seq<Op>) -> Seq<Action>
    decreases ops.len()
{
    if ops.len() == 0 { Seq::empty() } else {
        match ops.last() {
            Op::Push { a, ok } => if ok { pushed_ok(ops.drop_last()).push(a) } else { pushed_ok(ops.drop_last()) },
            Op::Pop { n } => pushed_ok(ops.drop_last()),
        }
    }
}
pub open spec fn run_em(ops: Seq<Op>) -> Seq<Action> decreases ops.len()
{ if ops.len() == 0 { Seq::empty() } else { step_emitted(run_em(ops.drop_last()), run_acc(ops.drop_last()), ops.last()) } }
pub open spec fn run_acc(ops: Seq<Op>) -> Seq<Action> decreases ops.len()
{ if ops.len() == 0 { Seq::empty() } else { step_accepted(run_em(ops.drop_last()), run_acc(ops.drop_last()), ops.last()) } }

pub proof fn lemma_history_exactly_once_in_order(ops: Seq<Op>)
    ensures run_em(ops) + run_acc(ops) =~= pushed_ok(ops)
    decreases ops.len()
{
    if ops.len() > 0 {
        lemma_history_exactly_once_in_order(ops.drop_last());
        let em = run_em(ops.drop_last());
        let acc = run_acc(ops.drop_last());
        match ops.last() {
            Op::Push { a, ok } => {
                if ok { assert(em + acc.push(a) =~= (em + acc).push(a)); }
            }
            Op::Pop { n } => {
                if n <= acc.len() {
                    assert((em + acc.subrange(0, n as int)) + acc.subrange(n as int, acc.len() as int) =~= em + acc);
                }
            }
        }
    }
}
'''

UNIT = dict(
    name="c16_bundle_factory", mode="V", properties=["C16"],
    use="use std::{collections::VecDeque, mem};",
    pre=PRE, prelude=PRELUDE, items=ITEMS, lemmas=LEMMAS,
    assumptions=[
        "encoded_len(&RollupDataSubmission) is an uninterpreted total function of the action (prost encoded_len trusted)",
        "with_ibc_prefixed is an uninterpreted function of the action (only fee_asset representation changes; not verified)",
        "R8 hoist: the statement updating SizedBundle.rollup_counts (HashMap entry API with a closure) touches only rollup_counts; rollup_counts is used for reporting only",
        "core::mem::replace specification (assume_specification)",
        "vstd specifications of Vec::push, VecDeque::{push_back,pop_front,len,is_empty}, Option::{unwrap_or,expect}",
        "NextFinishedBundle / next_finished (a struct holding &mut BundleFactory) is outside Verus' supported subset; its pop is the same finished.pop_front() as pop_now's first branch and is covered by the Kani harness of this property",
    ],
)
