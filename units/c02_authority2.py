CA = "crates/astria-sequencer/src/checked_actions/mod.rs"
D = "crates/astria-sequencer/src/checked_actions/"

KINDS = ["Transfer", "RollupDataSubmission", "Ics20Withdrawal", "InitBridgeAccount", "BridgeLock", "BridgeUnlock", "BridgeSudoChange", "IbcRelay",
         "ValidatorUpdate", "FeeAssetChange", "FeeChange", "IbcRelayerChange", "SudoAddressChange", "IbcSudoChange", "BridgeTransfer", "RecoverIbcClient",
         "CurrencyPairsChange", "MarketsChange"]

PRELUDE = r'''
pub trait AssetTransfer { fn transfer_asset_and_amount(&self) -> Option<(IbcPrefixed, u128)>; }
#[derive(Clone, Debug)] pub struct InitBridgeAccount { pub rollup_id: RollupId, pub asset: asset::Denom, pub fee_asset: asset::Denom, pub sudo_address: Option<Address>, pub withdrawer_address: Option<Address> }
#[derive(Clone, Copy, Debug)] pub enum FeeAssetChange { Addition(Denom), Removal(Denom) }
/// fee components of one action kind: FeeComponents<F> of astria-core, generic over a marker type per action kind as in the real crate
pub trait FeeHandler { const KIND: u8; fn snake_case_name() -> &'static str { "" } }
pub mod fee_kind { ''' + " ".join("#[derive(Clone, Copy, Debug, PartialEq, Eq)] pub struct %s; impl super::FeeHandler for %s { const KIND: u8 = %d; }" % (k, k, i) for i, k in enumerate(KINDS)) + r''' }
#[derive(Debug, PartialEq, Eq)] pub struct FeeComponents<F> { pub base: u128, pub multiplier: u128, pub _p: std::marker::PhantomData<F> }
impl<F> Clone for FeeComponents<F> { fn clone(&self) -> Self { *self } }
impl<F> Copy for FeeComponents<F> {}
impl<F> FeeComponents<F> { pub fn new(base: u128, multiplier: u128) -> Self { FeeComponents { base, multiplier, _p: std::marker::PhantomData } } pub fn base(&self) -> u128 { self.base } pub fn multiplier(&self) -> u128 { self.multiplier } }
pub struct StoredValue<'a> { pub kind: u8, pub base: u128, pub multiplier: u128, pub _p: std::marker::PhantomData<&'a ()> }
impl<'a, F: FeeHandler> From<FeeComponents<F>> for StoredValue<'a> { fn from(f: FeeComponents<F>) -> Self { StoredValue { kind: F::KIND, base: f.base, multiplier: f.multiplier, _p: std::marker::PhantomData } } }
#[derive(Clone, Copy, Debug)]
pub enum FeeChange { ''' + ", ".join("%s(FeeComponents<fee_kind::%s>)" % (k, k) for k in KINDS) + r''' }
pub trait FeesWriteShim2: StateWrite {
    fn put_fees<'a, F>(&mut self, f: FeeComponents<F>) -> Result<()> where F: FeeHandler, StoredValue<'a>: From<FeeComponents<F>> {
        let v: StoredValue<'a> = f.into(); store().put(Key::Fees(v.kind), v.base); store().put(Key::Fees(v.kind | 0x80), v.multiplier); Ok(()) }
}
impl<T: StateWrite + ?Sized> FeesWriteShim2 for T {}
/// `state.allowed_fee_assets().try_collect::<HashSet<_>>()`: a view of the set of allowed fee assets.
/// Membership of the tracked assets is read from the store; the number of further allowed assets is arbitrary.
pub struct AllowedStream;
pub struct HashSet<T> { pub others: usize, pub _m: std::marker::PhantomData<T> }
impl AllowedStream { pub fn try_collect(self) -> Result<HashSet<IbcPrefixed>> { let others: usize = kani::any(); kani::assume(others < 1000); unsafe { OTHERS = others; } Ok(HashSet { others, _m: std::marker::PhantomData }) } }
pub static mut OTHERS: usize = 0;
pub static mut TRACKED: Option<IbcPrefixed> = None;
impl HashSet<IbcPrefixed> {
    pub fn contains(&self, x: &IbcPrefixed) -> bool { store().get(Key::FeeAssetAllowed(*x)).is_some() }
    /// number of allowed assets = the tracked one (if allowed) + the untracked others
    pub fn len(&self) -> usize { let t = unsafe { TRACKED }.map_or(0, |x| if store().get(Key::FeeAssetAllowed(x)).is_some() { 1 } else { 0 }); self.others + t }
}
pub trait AllowedShim: StateRead { fn allowed_fee_assets(&self) -> AllowedStream { AllowedStream } }
impl<T: StateRead + ?Sized> AllowedShim for T {}
'''

HARNESS = r'''
    #[kani::proof]
    #[kani::unwind(10)]
    fn init_bridge_account_contract() {
        reset_store();
        let signer: [u8; ADDRESS_LEN] = kani::any();
        let action = InitBridgeAccount { rollup_id: RollupId(kani::any()), asset: Denom::any(), fee_asset: Denom::any(),
            sudo_address: if kani::any() { Some(Address::any()) } else { None }, withdrawer_address: if kani::any() { Some(Address::any()) } else { None } };
        let a2 = action.clone();
        let ks = [Key::BridgeRollupId(signer), Key::BridgeAsset(signer), Key::BridgeSudo(signer), Key::BridgeWithdrawer(signer)];
        for k in ks { store().declare(k); }
        let checked = CheckedInitBridgeAccount { action, tx_signer: signer.into() };
        let r = checked.execute(State);
        if r.is_ok() {
            // an account can only turn ITSELF into a bridge account, once; sudo and withdrawer default to the signer
            assert!(store().peek_init(Key::BridgeRollupId(signer)).is_none());
            assert!(store().peek(Key::BridgeRollupId(signer)) == Some(a2.rollup_id.0 as Val));
            assert!(store().peek(Key::BridgeSudo(signer)).map(val_addr) == Some(a2.sudo_address.map_or(signer, |a| a.bytes)));
            assert!(store().peek(Key::BridgeWithdrawer(signer)).map(val_addr) == Some(a2.withdrawer_address.map_or(signer, |a| a.bytes)));
            assert!(store().unchanged_except(&ks));
        } else { assert!(store().nothing_written()); }
    }
    fn fee_change_for(k: u8, action: FeeChange, f: (u128, u128)) {
        reset_store();
        let signer: [u8; ADDRESS_LEN] = kani::any();
        store().declare(Key::Sudo); store().declare(Key::Fees(k)); store().declare(Key::Fees(k | 0x80));
        let checked = CheckedFeeChange { action, tx_signer: signer.into() };
        let r = checked.execute(State);
        if r.is_ok() {
            assert!(store().peek_init(Key::Sudo).map(val_addr) == Some(signer));     // the fee schedule changes only for the current sudo
            assert!(store().peek(Key::Fees(k)) == Some(f.0) && store().peek(Key::Fees(k | 0x80)) == Some(f.1));   // exactly the named action's components
            assert!(store().unchanged_except(&[Key::Fees(k), Key::Fees(k | 0x80)]));
        } else { assert!(store().nothing_written()); }
    }
    #[kani::proof]
    #[kani::unwind(10)]
    fn fee_change_contract_transfer() { let f: (u128, u128) = (kani::any(), kani::any()); fee_change_for(0, FeeChange::Transfer(FeeComponents::new(f.0, f.1)), f); }
    #[kani::proof]
    #[kani::unwind(10)]
    fn fee_change_contract_rollupdatasubmission() { let f: (u128, u128) = (kani::any(), kani::any()); fee_change_for(1, FeeChange::RollupDataSubmission(FeeComponents::new(f.0, f.1)), f); }
    #[kani::proof]
    #[kani::unwind(10)]
    fn fee_change_contract_ics20withdrawal() { let f: (u128, u128) = (kani::any(), kani::any()); fee_change_for(2, FeeChange::Ics20Withdrawal(FeeComponents::new(f.0, f.1)), f); }
    #[kani::proof]
    #[kani::unwind(10)]
    fn fee_change_contract_initbridgeaccount() { let f: (u128, u128) = (kani::any(), kani::any()); fee_change_for(3, FeeChange::InitBridgeAccount(FeeComponents::new(f.0, f.1)), f); }
    #[kani::proof]
    #[kani::unwind(10)]
    fn fee_change_contract_bridgelock() { let f: (u128, u128) = (kani::any(), kani::any()); fee_change_for(4, FeeChange::BridgeLock(FeeComponents::new(f.0, f.1)), f); }
    #[kani::proof]
    #[kani::unwind(10)]
    fn fee_change_contract_bridgeunlock() { let f: (u128, u128) = (kani::any(), kani::any()); fee_change_for(5, FeeChange::BridgeUnlock(FeeComponents::new(f.0, f.1)), f); }
    #[kani::proof]
    #[kani::unwind(10)]
    fn fee_change_contract_bridgesudochange() { let f: (u128, u128) = (kani::any(), kani::any()); fee_change_for(6, FeeChange::BridgeSudoChange(FeeComponents::new(f.0, f.1)), f); }
    #[kani::proof]
    #[kani::unwind(10)]
    fn fee_change_contract_ibcrelay() { let f: (u128, u128) = (kani::any(), kani::any()); fee_change_for(7, FeeChange::IbcRelay(FeeComponents::new(f.0, f.1)), f); }
    #[kani::proof]
    #[kani::unwind(10)]
    fn fee_change_contract_validatorupdate() { let f: (u128, u128) = (kani::any(), kani::any()); fee_change_for(8, FeeChange::ValidatorUpdate(FeeComponents::new(f.0, f.1)), f); }
    #[kani::proof]
    #[kani::unwind(10)]
    fn fee_change_contract_feeassetchange() { let f: (u128, u128) = (kani::any(), kani::any()); fee_change_for(9, FeeChange::FeeAssetChange(FeeComponents::new(f.0, f.1)), f); }
    #[kani::proof]
    #[kani::unwind(10)]
    fn fee_change_contract_feechange() { let f: (u128, u128) = (kani::any(), kani::any()); fee_change_for(10, FeeChange::FeeChange(FeeComponents::new(f.0, f.1)), f); }
    #[kani::proof]
    #[kani::unwind(10)]
    fn fee_change_contract_ibcrelayerchange() { let f: (u128, u128) = (kani::any(), kani::any()); fee_change_for(11, FeeChange::IbcRelayerChange(FeeComponents::new(f.0, f.1)), f); }
    #[kani::proof]
    #[kani::unwind(10)]
    fn fee_change_contract_sudoaddresschange() { let f: (u128, u128) = (kani::any(), kani::any()); fee_change_for(12, FeeChange::SudoAddressChange(FeeComponents::new(f.0, f.1)), f); }
    #[kani::proof]
    #[kani::unwind(10)]
    fn fee_change_contract_ibcsudochange() { let f: (u128, u128) = (kani::any(), kani::any()); fee_change_for(13, FeeChange::IbcSudoChange(FeeComponents::new(f.0, f.1)), f); }
    #[kani::proof]
    #[kani::unwind(10)]
    fn fee_change_contract_bridgetransfer() { let f: (u128, u128) = (kani::any(), kani::any()); fee_change_for(14, FeeChange::BridgeTransfer(FeeComponents::new(f.0, f.1)), f); }
    #[kani::proof]
    #[kani::unwind(10)]
    fn fee_change_contract_recoveribcclient() { let f: (u128, u128) = (kani::any(), kani::any()); fee_change_for(15, FeeChange::RecoverIbcClient(FeeComponents::new(f.0, f.1)), f); }
    #[kani::proof]
    #[kani::unwind(10)]
    fn fee_change_contract_currencypairschange() { let f: (u128, u128) = (kani::any(), kani::any()); fee_change_for(16, FeeChange::CurrencyPairsChange(FeeComponents::new(f.0, f.1)), f); }
    #[kani::proof]
    #[kani::unwind(10)]
    fn fee_change_contract_marketschange() { let f: (u128, u128) = (kani::any(), kani::any()); fee_change_for(17, FeeChange::MarketsChange(FeeComponents::new(f.0, f.1)), f); }
    #[kani::proof]
    #[kani::unwind(10)]
    fn fee_asset_change_contract() {
        reset_store();
        let signer: [u8; ADDRESS_LEN] = kani::any();
        let d = Denom::any(); let x = d.to_ibc_prefixed();
        let removal: bool = kani::any();
        let action = if removal { FeeAssetChange::Removal(d) } else { FeeAssetChange::Addition(d) };
        store().declare(Key::Sudo); store().declare(Key::FeeAssetAllowed(x));
        unsafe { TRACKED = Some(x); }
        let was_allowed = store().peek_init(Key::FeeAssetAllowed(x)).is_some();
        let checked = CheckedFeeAssetChange { action, tx_signer: signer.into() };
        let r = checked.execute(State);
        if r.is_ok() {
            assert!(store().peek_init(Key::Sudo).map(val_addr) == Some(signer));
            if removal { assert!(was_allowed && store().peek(Key::FeeAssetAllowed(x)).is_none()); assert!(unsafe { OTHERS } >= 1); }   // never removes the last allowed fee asset
            else { assert!(!was_allowed && store().peek(Key::FeeAssetAllowed(x)).is_some()); }
            assert!(store().unchanged_except(&[Key::FeeAssetAllowed(x)]));
        } else { assert!(store().nothing_written()); }
    }
    #[kani::proof]
    #[kani::unwind(10)]
    fn canary_fee_asset_removal_reachable() {
        reset_store();
        let signer: [u8; ADDRESS_LEN] = kani::any();
        let d = Denom::any();
        store().declare(Key::Sudo); store().declare(Key::FeeAssetAllowed(d.to_ibc_prefixed()));
        unsafe { TRACKED = Some(d.to_ibc_prefixed()); }
        let checked = CheckedFeeAssetChange { action: FeeAssetChange::Removal(d), tx_signer: signer.into() };
        assert!(checked.execute(State).is_err());   // must FAIL
    }
'''

def act(file, ty):
    return [dict(file=D + file, path="struct %s" % ty, keep_derives=set()),
            dict(file=D + file, path="impl %s/fn run_mutable_checks" % ty),
            dict(file=D + file, path="impl %s/fn execute" % ty)]

UNIT = dict(
    name="c02_authority2", mode="K", properties=["C02"],
    shim_files=["shims/common.rs", "shims/seq.rs"],
    prelude=PRELUDE,
    items=[
        dict(file=CA, path="struct TransactionSignerAddressBytes"),
        dict(file=CA, path="impl TransactionSignerAddressBytes/fn as_bytes"),
        dict(file=CA, path="impl From<[u8; ADDRESS_LENGTH]> for TransactionSignerAddressBytes"),
        dict(file=CA, path="impl AddressBytes for TransactionSignerAddressBytes"),
    ] + act("init_bridge_account.rs", "CheckedInitBridgeAccount") + act("fee_change.rs", "CheckedFeeChange") + act("fee_asset_change.rs", "CheckedFeeAssetChange"),
    harness=HARNESS,
    harnesses=[
        dict(name="init_bridge_account_contract", obligation="CheckedInitBridgeAccount::execute::ensures#only-own-account-once+defaults+frame"),
    ] + [dict(name="fee_change_contract_%s" % k.lower(), obligation="CheckedFeeChange::execute[%s]::ensures#signer-is-current-sudo+exactly-the-named-components+frame" % k) for k in KINDS] + [
        dict(name="fee_asset_change_contract", obligation="CheckedFeeAssetChange::execute::ensures#signer-is-current-sudo+add-iff-absent/remove-iff-present-and-not-last+frame"),
        dict(name="canary_fee_asset_removal_reachable", expect="fail"),
    ],
    assumptions=["A-store typed accessors; FeeComponents<F> carried as a value with its kind (put_fees writes Fees(kind)); the allowed-fee-asset stream is a set view: the tracked asset's membership is read from the store, the number of other allowed assets is arbitrary",
                 "R1b: the `#[cfg(test)]` block inside CheckedFeeAssetChange::run_mutable_checks is deleted, as in a non-test build"],
)
