ACC = "crates/astria-sequencer/src/accounts/state_ext.rs"
TR = "crates/astria-sequencer/src/checked_actions/transfer.rs"
CA = "crates/astria-sequencer/src/checked_actions/mod.rs"
ACT = "crates/astria-core/src/protocol/transaction/v1/action/mod.rs"

ACCOUNTS_ITEMS = [
    dict(file=ACC, path="struct InsufficientFunds", module="accounts"),
    dict(file=ACC, path="trait StateWriteExt/fn increase_balance", module="accounts"),
    dict(file=ACC, path="trait StateWriteExt/fn decrease_balance", module="accounts"),
    dict(file=ACC, path="impl<T: StateWrite> StateWriteExt for T", module="accounts"),
]

PRELUDE = r'''
vx_insufficient_funds_marker!();
pub trait AssetTransfer { fn transfer_asset_and_amount(&self) -> Option<(IbcPrefixed, u128)>; }
'''

HARNESS = r'''
    fn any_transfer() -> (Transfer, [u8; ADDRESS_LEN]) {
        (Transfer { to: Address::any(), amount: kani::any(), asset: Denom::any(), fee_asset: Denom::any() }, kani::any())
    }

    // ---- accounts::increase_balance / decrease_balance: exact, checked, single-key frame -------------
    #[kani::proof]
    #[kani::unwind(10)]
    fn increase_balance_contract() {
        reset_store();
        let a: [u8; ADDRESS_LEN] = kani::any();
        let x = IbcPrefixed(kani::any());
        let n: u128 = kani::any();
        store().declare(Key::Balance(a, x));
        store().allow_io_err = true;
        let mut st = State;
        let r = st.increase_balance(&a, &x, n);
        let b0 = bal_init(&a, x);
        match r {
            Ok(()) => {
                assert!(b0.checked_add(n) == Some(bal_now(&a, x)));      // exact, in mathematical integers (no saturation/wrap)
                assert!(store().unchanged_except(&[Key::Balance(a, x)]));    // frame: only this (account, asset)
            }
            Err(_) => assert!(store().nothing_written()),                  // error leaves the state as it was
        }
        // total: fails only on overflow or a storage error
        if !store().storage_error { assert!(r.is_ok() == b0.checked_add(n).is_some()); }
    }
    #[kani::proof]
    #[kani::unwind(10)]
    fn decrease_balance_contract() {
        reset_store();
        let a: [u8; ADDRESS_LEN] = kani::any();
        let x = IbcPrefixed(kani::any());
        let n: u128 = kani::any();
        store().declare(Key::Balance(a, x));
        store().allow_io_err = true;
        let mut st = State;
        let r = st.decrease_balance(&a, &x, n);
        let b0 = bal_init(&a, x);
        match r {
            Ok(()) => {
                assert!(b0 >= n && bal_now(&a, x) == b0 - n);
                assert!(store().unchanged_except(&[Key::Balance(a, x)]));
            }
            Err(_) => assert!(store().nothing_written()),
        }
        if !store().storage_error { assert!(r.is_ok() == (b0 >= n)); }
    }

    // ---- Transfer::execute --------------------------------------------------------------------------
    #[kani::proof]
    #[kani::unwind(10)]
    fn transfer_execute_contract() {
        reset_store();
        let (action, signer) = any_transfer();
        let to = action.to.bytes;
        let amount = action.amount;
        let x = action.asset.to_ibc_prefixed();
        store().declare(Key::Balance(signer, x));
        store().declare(Key::Balance(to, x));
        store().declare(Key::BridgeRollupId(signer));
        let checked = CheckedTransfer { action, tx_signer: signer.into() };
        let r = checked.execute(State);
        let from0 = bal_init(&signer, x);
        let to0 = bal_init(&to, x);
        if r.is_ok() {
            // C02: the debited account is the signer, and the signer is not a bridge account (in the pre-state of this call)
            assert!(store().peek_init(Key::BridgeRollupId(signer)).is_none());
            if signer == to {
                assert!(bal_now(&signer, x) == from0 && from0 >= amount);
            } else {
                // C01: exact debit and credit, conservation, no wrap
                assert!(from0 >= amount && bal_now(&signer, x) == from0 - amount);
                assert!(to0.checked_add(amount) == Some(bal_now(&to, x)));
            }
            // frame: nothing but the two balances changed; no deposit, no event
            assert!(store().unchanged_except(&[Key::Balance(signer, x), Key::Balance(to, x)]));
            assert!(store().n_deposits == 0 && store().events == 0);
        } else {
            // value is never created on a failing path either (the caller drops the delta, C03)
            if signer != to {
                assert!(bal_now(&signer, x) <= from0);
                assert!(bal_now(&to, x) == to0);
            }
        }
    }
    #[kani::proof]
    #[kani::unwind(10)]
    fn canary_transfer_ok_reachable() {
        reset_store();
        let (action, signer) = any_transfer();
        let x = action.asset.to_ibc_prefixed();
        store().declare(Key::Balance(signer, x));
        store().declare(Key::Balance(action.to.bytes, x));
        store().declare(Key::BridgeRollupId(signer));
        let checked = CheckedTransfer { action, tx_signer: signer.into() };
        assert!(checked.execute(State).is_err());   // must FAIL
    }
'''

UNIT = dict(
    name="c01_transfer", mode="K", properties=["C01", "C02"],
    shim_files=["shims/common.rs", "shims/seq.rs"],
    prelude=PRELUDE,
    use="use crate::accounts::*;",
    items=ACCOUNTS_ITEMS + [
        dict(file=ACT, path="struct Transfer", keep_derives={"Clone", "Debug"}),
        dict(file=CA, path="struct TransactionSignerAddressBytes"),
        dict(file=CA, path="impl TransactionSignerAddressBytes/fn as_bytes"),
        dict(file=CA, path="impl From<[u8; ADDRESS_LENGTH]> for TransactionSignerAddressBytes"),
        dict(file=CA, path="impl AddressBytes for TransactionSignerAddressBytes"),
        dict(file=TR, path="struct CheckedTransfer", keep_derives=set()),
        dict(file=TR, path="impl CheckedTransfer/fn run_mutable_checks"),
        dict(file=TR, path="impl CheckedTransfer/fn execute"),
    ],
    harness=HARNESS,
    harnesses=[
        dict(name="increase_balance_contract", obligation="accounts::increase_balance::ensures#exact-checked-add+frame"),
        dict(name="decrease_balance_contract", obligation="accounts::decrease_balance::ensures#exact-checked-sub+frame"),
        dict(name="transfer_execute_contract", obligation="CheckedTransfer::execute::ensures#conservation+exact-debit-credit+signer-not-bridge+frame"),
        dict(name="canary_transfer_ok_reachable", expect="fail"),
    ],
    assumptions=["A-store: typed accessors get/put_account_balance, get_bridge_account_rollup_id are one-liners over the symbolic store (shims/seq.rs)",
                 "addresses are 2 bytes, asset ids 1 byte (the code only copies and compares them)"],
)
