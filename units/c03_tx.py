CT = "crates/astria-sequencer/src/checked_transaction/mod.rs"
CE = "crates/astria-sequencer/src/checked_transaction/error.rs"
APP = "crates/astria-sequencer/src/app/mod.rs"

PRELUDE = r'''
/// stand-in for std::sync::Arc (sharing is irrelevant here; Kani's model of Arc deallocation reports spurious layout errors)
pub struct Arc<T>(pub T);
impl<T> Arc<T> { pub fn new(v: T) -> Self { Arc(v) } }
impl<T> std::ops::Deref for Arc<T> { type Target = T; fn deref(&self) -> &T { &self.0 } }
pub const MAXA: usize = 3;   // bound on the number of actions in the harness transactions

#[derive(Debug)] pub struct CheckedActionExecutionError;
/// stand-in for CheckedAction: pay_fees_and_execute has an arbitrary outcome and logs (position it was given)
#[derive(Debug, Clone, Copy)]
pub enum CheckedAction { FeeChange(u8), FeeAssetChange(u8), Other(u8) }
pub static mut EXEC_LOG: [Option<(u8, u64, bool)>; 4] = [None; 4];
pub static mut EXEC_N: usize = 0;
impl CheckedAction {
    pub fn id(&self) -> u8 { match self { CheckedAction::FeeChange(i) | CheckedAction::FeeAssetChange(i) | CheckedAction::Other(i) => *i } }
    pub fn pay_fees_and_execute<S: StateWrite>(&self, _state: S, _tx_signer: &[u8; ADDRESS_LENGTH], _tx_id: &TransactionId, position_in_tx: u64)
        -> Result<(), CheckedActionExecutionError> {
        let ok: bool = kani::any();
        unsafe { assert!(EXEC_N < 4); EXEC_LOG[EXEC_N] = Some((self.id(), position_in_tx, ok)); EXEC_N += 1; }
        // an executing action may write anything inside the transaction's delta
        store().wrote_undeclared = store().wrote_undeclared || kani::any();
        if ok { Ok(()) } else { Err(CheckedActionExecutionError) }
    }
}
#[derive(Debug, Clone, Copy)] pub struct TransactionParams { pub nonce: u32 }
impl TransactionParams { pub fn nonce(&self) -> u32 { self.nonce } }
// VerificationKey: shims/seq.rs (validators_shim)
#[derive(Debug, Clone, Copy)] pub struct Group;
#[derive(Debug, Clone, Copy)] pub struct Bytes;

// ---- App::execute_transaction skeleton: the transaction's own state delta -------------------------------
pub static mut DELTAS_BEGUN: u32 = 0;
pub static mut DELTAS_APPLIED: u32 = 0;
pub static mut DELTA_LIVE: bool = false;
pub static mut WRITES_OUTSIDE_DELTA: bool = false;
pub struct Attr { pub indexed: bool }
impl Attr { pub fn set_index(&mut self, v: bool) { self.indexed = v; } }
pub struct Event { pub attributes: Vec<Attr> }
pub struct StateTx;
impl StateRead for StateTx {}
impl StateWrite for StateTx {}
impl StateTx {
    /// cnidarium: apply() publishes every write of the delta to the parent; dropping the delta publishes none
    pub fn apply(self) -> ((), Vec<Event>) { unsafe { assert!(DELTA_LIVE); DELTAS_APPLIED += 1; DELTA_LIVE = false; } ((), Vec::new()) }
}
impl Drop for StateTx { fn drop(&mut self) { unsafe { DELTA_LIVE = false; } } }
pub struct InterBlockState;
impl InterBlockState {
    pub fn try_begin_transaction(&mut self) -> Option<StateTx> { unsafe { DELTAS_BEGUN += 1; DELTA_LIVE = true; } Some(StateTx) }
}
pub struct App { pub state: InterBlockState, pub recost_mempool: bool }
impl From<CheckedActionExecutionError> for CheckedTransactionExecutionError { fn from(e: CheckedActionExecutionError) -> Self { CheckedTransactionExecutionError::CheckedAction(e) } }
impl CheckedTransaction {
    pub fn checked_actions(&self) -> &[CheckedAction] { &self.actions }
}
'''

HARNESS = r'''
    fn any_tx() -> CheckedTransaction {
        let n: usize = kani::any();
        kani::assume(n <= MAXA);
        let mut actions = Vec::new();
        let mut i: u8 = 0;
        while (i as usize) < n { actions.push(CheckedAction::Other(i)); i += 1; }
        CheckedTransaction { tx_id: TransactionId(kani::any()), actions, group: Group, params: TransactionParams { nonce: kani::any() },
                             verification_key: VerificationKey { addr: kani::any() }, tx_bytes: Bytes }
    }

    // ---- CheckedTransaction::execute: nonce equality, +1, at most once; actions in order with their index ----
    #[kani::proof]
    #[kani::unwind(8)]
    #[kani::stub(alloc::fmt::format, crate::vx_stub_format)]
    fn tx_execute_nonce_and_order() {
        reset_store();
        unsafe { EXEC_N = 0; EXEC_LOG = [None; 4]; }
        let tx = any_tx();
        let signer = tx.verification_key.addr;
        let n_actions = tx.actions.len();
        store().declare(Key::Nonce(signer));
        store().declare(Key::BridgeRollupId(signer));
        store().declare(Key::LastTxId(signer));
        let r = tx.execute(State);
        let nonce0 = store().peek_init(Key::Nonce(signer)).map_or(0u32, |v| v as u32);
        let nonce1 = store().peek(Key::Nonce(signer)).map_or(0u32, |v| v as u32);
        let executed = unsafe { EXEC_N };
        if tx.params.nonce != nonce0 {
            // wrong nonce (replay, gap): refused before anything is written or executed
            assert!(r.is_err() && executed == 0 && store().nothing_written());
        }
        if nonce0 == u32::MAX {
            // exhausted nonce: refused, no action runs, the nonce is not wrapped
            assert!(r.is_err() && executed == 0 && nonce1 == nonce0);
        }
        if r.is_ok() {
            assert!(nonce0 == tx.params.nonce);                 // takes effect only at the signer's current nonce
            assert!(nonce1 as u64 == nonce0 as u64 + 1);        // and raises it by exactly one
            assert!(executed == n_actions);
        }
        // actions run in order, each given its own position, stopping at the first failure
        let mut k = 0;
        while k < executed {
            let (id, pos, ok) = unsafe { EXEC_LOG[k] }.unwrap();
            assert!(id as usize == k && pos == k as u64);
            if k + 1 < executed { assert!(ok); }
            if !ok { assert!(r.is_err() && k + 1 == executed); }
            k += 1;
        }
        // what execute itself writes: the signer's nonce, and the last-tx-id marker only for a bridge account
        if executed == 0 {
            assert!(store().unchanged_except(&[Key::Nonce(signer), Key::LastTxId(signer)]));
            if store().peek_init(Key::BridgeRollupId(signer)).is_none() { assert!(store().unchanged_except(&[Key::Nonce(signer)])); }
        }
    }
    #[kani::proof]
    #[kani::unwind(8)]
    #[kani::stub(alloc::fmt::format, crate::vx_stub_format)]
    fn canary_tx_execute_ok_reachable() {
        reset_store();
        unsafe { EXEC_N = 0; EXEC_LOG = [None; 4]; }
        let tx = any_tx();
        let signer = tx.verification_key.addr;
        store().declare(Key::Nonce(signer)); store().declare(Key::BridgeRollupId(signer)); store().declare(Key::LastTxId(signer));
        assert!(tx.execute(State).is_err());   // must FAIL
    }

    // ---- App::execute_transaction: own delta, applied exactly when execution succeeded -----------------------
    #[kani::proof]
    #[kani::unwind(8)]
    #[kani::stub(alloc::fmt::format, crate::vx_stub_format)]
    fn execute_transaction_is_atomic() {
        reset_store();
        unsafe { EXEC_N = 0; EXEC_LOG = [None; 4]; DELTAS_BEGUN = 0; DELTAS_APPLIED = 0; DELTA_LIVE = false; }
        let tx = any_tx();
        let signer = tx.verification_key.addr;
        store().declare(Key::Nonce(signer)); store().declare(Key::BridgeRollupId(signer)); store().declare(Key::LastTxId(signer));
        let mut app = App { state: InterBlockState, recost_mempool: false };
        let r = app.execute_transaction(Arc::new(tx));
        let (begun, applied, live) = unsafe { (DELTAS_BEGUN, DELTAS_APPLIED, DELTA_LIVE) };
        assert!(begun == 1);                         // every transaction runs in its own state delta
        assert!(!live);                              // which is gone when the call returns
        let ok = r.is_ok();
        std::mem::forget(r); std::mem::forget(app);  // Kani 0.68 reports a spurious __rust_dealloc layout failure when this Result is dropped
        if ok { assert!(applied == 1); }             // success: all of its writes (state, block fees, deposits, events) are published, once
        else { assert!(applied == 0); }              // failure at any action: none of them is
    }
'''

UNIT = dict(
    name="c03_tx", mode="K", properties=["C03"],
    shim_files=["shims/common.rs", "shims/seq.rs"],
    prelude=PRELUDE,
    use="type StdResult<T, E> = std::result::Result<T, E>;",
    items=[
        dict(file=CE, path="enum CheckedTransactionExecutionError", keep_derives={"Debug"},
             rewrites=[dict(rule="regex", id="R1.from_attr", old=r"CheckedAction\(\s*CheckedActionExecutionError\)", new="CheckedAction(CheckedActionExecutionError)", min=0)]),
        dict(file=CE, path="impl CheckedTransactionExecutionError/fn internal"),
        dict(file=CT, path="struct CheckedTransaction", keep_derives={"Debug"}),
        dict(file=CT, path="impl CheckedTransaction/fn execute"),
        dict(file=CT, path="impl AddressBytes for CheckedTransaction"),
        dict(file=APP, path="impl App/fn execute_transaction",
             rewrites=[dict(rule="subst", id="R4.std_result", old="std::result::Result<Vec<Event>, CheckedTransactionExecutionError>", new="std::result::Result<Vec<Event>, CheckedTransactionExecutionError>")]),
    ],
    harness=HARNESS,
    harnesses=[
        dict(name="tx_execute_nonce_and_order", obligation="CheckedTransaction::execute::ensures#nonce-equal-then-plus-one+refused-without-writes+actions-in-order",
             bounded="at most 3 actions per transaction (the action loop is unrolled; the nonce prefix is loop-free and complete)"),
        dict(name="canary_tx_execute_ok_reachable", expect="fail"),
        dict(name="execute_transaction_is_atomic", obligation="App::execute_transaction::ensures#own-delta-applied-iff-Ok",
             bounded="at most 3 actions per transaction"),
    ],
    assumptions=["cnidarium StateDelta semantics: apply() publishes all writes of the delta, dropping it publishes none; block fees, cached deposits and events live in the same delta (object store / event log)",
                 "CheckedAction::pay_fees_and_execute is an arbitrary-outcome stand-in that may write anything (the per-action contracts are units c01_*, c02_*, c04_*)",
                 "impl From<CheckedActionExecutionError> for CheckedTransactionExecutionError is derived by thiserror #[from]; provided by the shim"],
)
