P = "crates/astria-core/src/protocol/mod.rs"
V = "crates/astria-core/src/primitive/v1/mod.rs"
S = "crates/astria-core/src/sequencerblock/v1/block/mod.rs"
C = "crates/astria-sequencer/src/proposal/commitment.rs"

PRELUDE = r'''
pub const CAP: usize = 4;
// ---- fixed-capacity list standing in for Vec ---------------------------------------------------------------------------------------------
#[derive(Clone, Copy, Debug, PartialEq, Eq)] pub struct Vec<T> { pub items: [T; CAP], pub n: usize }
impl<T: Default + Copy> Vec<T> {
    pub fn new() -> Self { Vec { items: [T::default(); CAP], n: 0 } }
    pub fn push(&mut self, v: T) { assert!(self.n < CAP, "list capacity"); self.items[self.n] = v; self.n += 1; }
    pub fn extend<I: IntoIterator<Item = T>>(&mut self, it: I) { for x in it { self.push(x); } }
}
impl<T: Default + Copy> Default for Vec<T> { fn default() -> Self { Vec::new() } }
impl<T> std::ops::Deref for Vec<T> { type Target = [T]; fn deref(&self) -> &[T] { &self.items[..self.n] } }
impl<T> AsRef<[T]> for Vec<T> { fn as_ref(&self) -> &[T] { &self.items[..self.n] } }
impl<T: Copy + Ord> Vec<T> {
    /// insertion sort (inherent, so it takes precedence over the slice's pattern-defeating quicksort, which CBMC cannot get through)
    pub fn sort_unstable(&mut self) { let mut i = 1; while i < self.n { let mut j = i; while j > 0 && self.items[j - 1] > self.items[j] { self.items.swap(j - 1, j); j -= 1; } i += 1; } }
    pub fn sort(&mut self) { self.sort_unstable() }
}
impl<T> std::ops::DerefMut for Vec<T> { fn deref_mut(&mut self) -> &mut [T] { &mut self.items[..self.n] } }
impl<T: Default + Copy> FromIterator<T> for Vec<T> { fn from_iter<I: IntoIterator<Item = T>>(it: I) -> Self { let mut v = Vec::new(); for x in it { v.push(x); } v } }
impl<'a, T> IntoIterator for &'a Vec<T> { type Item = &'a T; type IntoIter = std::slice::Iter<'a, T>; fn into_iter(self) -> std::slice::Iter<'a, T> { self.items[..self.n].iter() } }
pub struct VecIntoIter<T> { v: Vec<T>, i: usize }
impl<T: Copy> Iterator for VecIntoIter<T> { type Item = T; fn next(&mut self) -> Option<T> { if self.i < self.v.n { let r = self.v.items[self.i]; self.i += 1; Some(r) } else { None } } }
impl<T: Copy> IntoIterator for Vec<T> { type Item = T; type IntoIter = VecIntoIter<T>; fn into_iter(self) -> VecIntoIter<T> { VecIntoIter { v: self, i: 0 } } }
#[allow(unused_macros)] macro_rules! vec { () => { crate::Vec::new() } }
#[derive(Clone, Copy, Debug, PartialEq, Eq, Default)] pub struct Arc<T>(pub T);
impl<T> std::ops::Deref for Arc<T> { type Target = T; fn deref(&self) -> &T { &self.0 } }
#[derive(Clone, Copy, Debug, PartialEq, Eq, Default)] pub struct Box<T>(pub T);
impl<T> Box<T> { pub fn new(t: T) -> Self { Box(t) } }

// ---- domain stand-ins ----------------------------------------------------------------------------------------------------------------------
#[derive(Clone, Copy, Debug, PartialEq, Eq, PartialOrd, Ord, Default)] pub struct RollupId(pub [u8; 1]);
impl AsRef<[u8]> for RollupId { fn as_ref(&self) -> &[u8] { &self.0 } }
/// byte strings: a kind tag (0 = raw payload, 1 = encoded SequencedData, 2 = encoded Deposit) and one content byte; the encoders below are injective on it
#[derive(Clone, Copy, Debug, PartialEq, Eq, Default)] pub struct Bytes(pub [u8; 2]);
impl AsRef<[u8]> for Bytes { fn as_ref(&self) -> &[u8] { &self.0 } }
#[derive(Clone, Copy, Debug, PartialEq, Eq, Default)] pub struct Deposit(pub u8);
pub enum RollupData { SequencedData(Bytes), Deposit(Box<Deposit>) }
pub struct RawRollupData(pub Bytes);
pub struct Encoded(pub Bytes);
impl RollupData { pub fn into_raw(self) -> RawRollupData { match self { RollupData::SequencedData(b) => RawRollupData(Bytes([1, b.0[1]])), RollupData::Deposit(d) => RawRollupData(Bytes([2, d.0.0])) } } }
impl RawRollupData { pub fn encode_to_vec(&self) -> Encoded { Encoded(self.0) } }
impl From<Encoded> for Bytes { fn from(e: Encoded) -> Bytes { e.0 } }
pub mod prost { pub trait Message {} }

// ---- insertion-ordered map standing in for indexmap::IndexMap (entry / or_default / or_insert / sort_unstable_keys / keys / iteration in order) ----
#[derive(Clone, Copy, Debug, PartialEq, Eq)] pub struct IndexMap<K, V> { pub ks: [K; CAP], pub vs: [V; CAP], pub n: usize }
pub struct Entry<'a, K, V> { m: &'a mut IndexMap<K, V>, k: K }
impl<K: Copy + Default + Ord, V: Copy + Default> IndexMap<K, V> {
    pub fn new() -> Self { IndexMap { ks: [K::default(); CAP], vs: [V::default(); CAP], n: 0 } }
    fn find(&self, k: &K) -> Option<usize> { let mut i = 0; while i < self.n { if self.ks[i] == *k { return Some(i); } i += 1; } None }
    pub fn entry(&mut self, k: K) -> Entry<'_, K, V> { Entry { m: self, k } }
    pub fn insert(&mut self, k: K, v: V) -> Option<V> { match self.find(&k) { Some(i) => { let old = self.vs[i]; self.vs[i] = v; Some(old) } None => { assert!(self.n < CAP, "map capacity"); self.ks[self.n] = k; self.vs[self.n] = v; self.n += 1; None } } }
    /// sorts by key; keys are unique, so an unstable sort is deterministic
    pub fn sort_unstable_keys(&mut self) { let mut i = 1; while i < self.n { let mut j = i; while j > 0 && self.ks[j - 1] > self.ks[j] { self.ks.swap(j - 1, j); self.vs.swap(j - 1, j); j -= 1; } i += 1; } }
    pub fn keys(&self) -> std::slice::Iter<'_, K> { self.ks[..self.n].iter() }
    pub fn len(&self) -> usize { self.n }
    pub fn is_empty(&self) -> bool { self.n == 0 }
    pub fn get(&self, k: &K) -> Option<&V> { match self.find(k) { Some(i) => Some(&self.vs[i]), None => None } }
    pub fn get_mut(&mut self, k: &K) -> Option<&mut V> { match self.find(k) { Some(i) => Some(&mut self.vs[i]), None => None } }
    pub fn contains_key(&self, k: &K) -> bool { self.find(k).is_some() }
    pub fn values(&self) -> std::slice::Iter<'_, V> { self.vs[..self.n].iter() }
    pub fn iter(&self) -> MapIter<'_, K, V> { MapIter { m: self, i: 0 } }
}
impl<K: Copy + Default + Ord, V: Copy + Default> std::ops::Index<&K> for IndexMap<K, V> { type Output = V; fn index(&self, k: &K) -> &V { self.get(k).expect("IndexMap: key not found") } }
impl<K: Copy + Default + Ord, V: Copy + Default> FromIterator<(K, V)> for IndexMap<K, V> { fn from_iter<I: IntoIterator<Item = (K, V)>>(it: I) -> Self { let mut m = IndexMap::new(); for (k, v) in it { m.insert(k, v); } m } }
impl<'a, K: Copy + Default + Ord, V: Copy + Default> Entry<'a, K, V> {
    pub fn and_modify<F: FnOnce(&mut V)>(self, f: F) -> Self { if let Some(i) = self.m.find(&self.k) { f(&mut self.m.vs[i]); } self }
}
impl<'a, K: Copy + Default + Ord, V: Copy + Default> Entry<'a, K, V> {
    pub fn or_insert(self, v: V) -> &'a mut V { let i = match self.m.find(&self.k) { Some(i) => i, None => { assert!(self.m.n < CAP, "map capacity"); let i = self.m.n; self.m.ks[i] = self.k; self.m.vs[i] = v; self.m.n += 1; i } }; &mut self.m.vs[i] }
    pub fn or_default(self) -> &'a mut V { self.or_insert(V::default()) }
}
pub struct MapIter<'a, K, V> { m: &'a IndexMap<K, V>, i: usize }
impl<'a, K, V> Iterator for MapIter<'a, K, V> { type Item = (&'a K, &'a V); fn next(&mut self) -> Option<Self::Item> { if self.i < self.m.n { let r = (&self.m.ks[self.i], &self.m.vs[self.i]); self.i += 1; Some(r) } else { None } } }
impl<'a, K, V> IntoIterator for &'a IndexMap<K, V> { type Item = (&'a K, &'a V); type IntoIter = MapIter<'a, K, V>; fn into_iter(self) -> MapIter<'a, K, V> { MapIter { m: self, i: 0 } } }
pub struct MapIntoIter<K, V> { m: IndexMap<K, V>, i: usize }
impl<K: Copy, V: Copy> Iterator for MapIntoIter<K, V> { type Item = (K, V); fn next(&mut self) -> Option<(K, V)> { if self.i < self.m.n { let r = (self.m.ks[self.i], self.m.vs[self.i]); self.i += 1; Some(r) } else { None } } }
impl<K: Copy, V: Copy> IntoIterator for IndexMap<K, V> { type Item = (K, V); type IntoIter = MapIntoIter<K, V>; fn into_iter(self) -> MapIntoIter<K, V> { MapIntoIter { m: self, i: 0 } } }
/// std HashMap: iteration order is arbitrary — two entries, visited in either order
#[derive(Clone, Copy, Debug, PartialEq, Eq)] pub struct HashMap<K, V> { pub e: [(K, V); 2], pub n: usize, pub swap: bool }
pub struct HashIntoIter<K, V> { m: HashMap<K, V>, i: usize }
impl<K: Copy, V: Copy> Iterator for HashIntoIter<K, V> { type Item = (K, V); fn next(&mut self) -> Option<(K, V)> { if self.i < self.m.n { let j = if self.m.n == 2 && self.m.swap { 1 - self.i } else { self.i }; self.i += 1; Some(self.m.e[j]) } else { None } } }
impl<K: Copy, V: Copy> IntoIterator for HashMap<K, V> { type Item = (K, V); type IntoIter = HashIntoIter<K, V>; fn into_iter(self) -> HashIntoIter<K, V> { HashIntoIter { m: self, i: 0 } } }

// ---- Merkle tree stand-in: remembers its leaves; the root is a deterministic digest of them; proofs name (tree, index) -----------------------
pub mod merkle {
    pub const LCAP: usize = 4;
    #[derive(Clone, Copy, Debug, PartialEq, Eq, Default)] pub struct Leaf { pub b: [u8; 6], pub n: usize }
    #[derive(Clone, Copy, Debug, PartialEq, Eq, Default)] pub struct Tree { pub leaves: [Leaf; LCAP], pub n: usize }
    #[derive(Clone, Copy, Debug, PartialEq, Eq, Default)] pub struct Proof { pub root: [u8; 4], pub index: usize, pub tree_size: usize }
    pub struct LeafBuilder<'a> { t: &'a mut Tree }
    impl<'a> LeafBuilder<'a> { pub fn write(&mut self, bytes: &[u8]) -> &mut Self { let l = &mut self.t.leaves[self.t.n - 1]; let mut i = 0; while i < bytes.len() { assert!(l.n < 6, "leaf capacity"); l.b[l.n] = bytes[i]; l.n += 1; i += 1; } self } }
    impl Tree {
        pub fn new() -> Self { Tree::default() }
        pub fn build_leaf(&mut self) -> LeafBuilder<'_> { assert!(self.n < LCAP, "tree capacity"); self.n += 1; LeafBuilder { t: self } }
        pub fn from_leaves<I: IntoIterator<Item = B>, B: AsRef<[u8]>>(it: I) -> Tree { let mut t = Tree::new(); for x in it { t.build_leaf().write(x.as_ref()); } t }
        /// a deterministic digest of the ordered leaves (that it binds them is property C08 / H-inj)
        pub fn root(&self) -> [u8; 4] { let mut h: u32 = 0x811c9dc5 ^ (self.n as u32); let mut i = 0; while i < self.n { let l = &self.leaves[i]; let mut j = 0; h = h.rotate_left(7) ^ (l.n as u32) ^ 0xa5; while j < l.n { h = h.rotate_left(5) ^ (l.b[j] as u32); j += 1; } i += 1; } h.to_le_bytes() }   // bitwise only: multiplications make the SAT problem hard for no benefit
        pub fn construct_proof(&self, i: usize) -> Option<Proof> { if i < self.n { Some(Proof { root: self.root(), index: i, tree_size: self.n }) } else { None } }
    }
}

// ---- block stand-ins (field names as in astria-core) ----------------------------------------------------------------------------------------
#[derive(Clone, Copy, Debug, PartialEq, Eq, Default)] pub struct Hash(pub u8);
#[derive(Clone, Copy, Debug, PartialEq, Eq, Default)] pub struct Time(pub u8);
#[derive(Clone, Copy, Debug, PartialEq, Eq, Default)] pub struct ChangeHash(pub u8);
#[derive(Clone, Copy, Debug, PartialEq, Eq, Default)] pub struct ExtendedCommitInfoWithProof(pub u8);
pub mod account { #[derive(Clone, Copy, Debug, PartialEq, Eq, Default)] pub struct Id(pub u8); }
pub mod tendermint { pub mod chain { #[derive(Clone, Copy, Debug, PartialEq, Eq, Default)] pub struct Id(pub u8); } pub mod block { #[derive(Clone, Copy, Debug, PartialEq, Eq, Default)] pub struct Height(pub u8); } }
#[derive(Clone, Copy, Debug, PartialEq, Eq, Default)] pub struct ExpandedBlockData { pub data_root_hash: [u8; 4], pub rollup_transactions_root: [u8; 4], pub rollup_transactions_proof: merkle::Proof, pub rollup_ids_root: [u8; 4], pub rollup_ids_proof: merkle::Proof,
    pub upgrade_change_hashes: Vec<ChangeHash>, pub extended_commit_info_with_proof: Option<ExtendedCommitInfoWithProof>, pub user_submitted_transactions: u8 }
#[derive(Clone, Copy, Debug, PartialEq, Eq, Default)] pub struct RollupTransactions { pub rollup_id: RollupId, pub transactions: Vec<Bytes>, pub proof: merkle::Proof }
#[derive(Clone, Copy, Debug, PartialEq, Eq)] pub struct SequencerBlockHeader { pub chain_id: tendermint::chain::Id, pub height: tendermint::block::Height, pub time: Time, pub rollup_transactions_root: [u8; 4], pub data_hash: [u8; 4], pub proposer_address: account::Id }
#[derive(Clone, Copy, Debug, PartialEq, Eq)] pub struct SequencerBlock { pub block_hash: Hash, pub header: SequencerBlockHeader, pub rollup_transactions: IndexMap<RollupId, RollupTransactions>, pub rollup_transactions_proof: merkle::Proof, pub rollup_ids_proof: merkle::Proof,
    pub upgrade_change_hashes: Vec<ChangeHash>, pub extended_commit_info_with_proof: Option<ExtendedCommitInfoWithProof> }
pub struct SequencerBlockBuilder { pub block_hash: Hash, pub chain_id: tendermint::chain::Id, pub height: tendermint::block::Height, pub time: Time, pub proposer_address: account::Id, pub expanded_block_data: ExpandedBlockData,
    pub rollup_data_bytes: Vec<(RollupId, Bytes)>, pub deposits: HashMap<RollupId, Vec<Deposit>> }
#[derive(Clone, Copy, Debug, PartialEq, Eq)] pub enum SequencerBlockError { IdsRoot, TxsRoot }
impl SequencerBlockError { pub fn rollup_ids_root_does_not_match_reconstructed() -> Self { SequencerBlockError::IdsRoot } pub fn rollup_transactions_root_does_not_match_reconstructed() -> Self { SequencerBlockError::TxsRoot } }
pub mod astria_core { pub mod primitive { pub mod v1 { pub use crate::derive_merkle_tree_from_rollup_txs; } } }
/// sequencer side: a checked transaction as far as the commitment looks at it (its rollup data submissions, in action order)
#[derive(Clone, Copy, Debug, PartialEq, Eq, Default)] pub struct CheckedTransaction { pub subs: [(RollupId, Bytes); 2], pub n: usize }
pub struct SubIter<'a> { t: &'a CheckedTransaction, i: usize }
impl<'a> Iterator for SubIter<'a> { type Item = (&'a RollupId, &'a Bytes); fn next(&mut self) -> Option<Self::Item> { if self.i < self.t.n { let r = (&self.t.subs[self.i].0, &self.t.subs[self.i].1); self.i += 1; Some(r) } else { None } } }
impl CheckedTransaction { pub fn rollup_data_bytes(&self) -> SubIter<'_> { SubIter { t: self, i: 0 } } }
pub struct GeneratedCommitments<const USES_DATA_ITEM_ENUM: bool> { pub rollup_datas_root: [u8; 4], pub rollup_ids_root: [u8; 4] }
'''

HARNESS = r'''
    fn any_id() -> RollupId { let k: u8 = kani::any(); kani::assume(k < 3); RollupId([k]) }
    /// a block: up to 2 transactions with up to 2 data submissions in total (rollup ids 0..2, any payloads), deposits for up to 2 distinct rollups (1 or 2 each)
    fn any_block(total: usize, nd: usize) -> ([Arc<CheckedTransaction>; 2], usize, HashMap<RollupId, Vec<Deposit>>) {
        let mut t0 = CheckedTransaction::default(); let mut t1 = CheckedTransaction::default();
        let split: usize = kani::any(); kani::assume(split <= total);
        let mut i = 0; while i < total { let s = (any_id(), Bytes([0, kani::any()])); if i < split { t0.subs[t0.n] = s; t0.n += 1; } else { t1.subs[t1.n] = s; t1.n += 1; } i += 1; }
        let mut e = [(RollupId::default(), Vec::new()); 2];
        let mut j = 0; while j < nd { let mut v = Vec::new(); v.push(Deposit(kani::any())); if kani::any() { v.push(Deposit(kani::any())); } e[j] = (any_id(), v); j += 1; }
        if nd == 2 { kani::assume(e[0].0 != e[1].0); }                                        // map keys are distinct
        ([Arc(t0), Arc(t1)], 2, HashMap { e, n: nd, swap: kani::any() })
    }
    /// the specification: for a rollup id, its payloads in block order (encoded as sequenced data) followed by its deposits (encoded), in the order of the deposit list
    fn expected(id: RollupId, txs: &[Arc<CheckedTransaction>; 2], deps: &HashMap<RollupId, Vec<Deposit>>) -> Vec<Bytes> {
        let mut out = Vec::new();
        let mut t = 0; while t < 2 { let mut i = 0; while i < txs[t].n { if txs[t].subs[i].0 == id { out.push(Bytes([1, txs[t].subs[i].1.0[1]])); } i += 1; } t += 1; }
        let mut j = 0; while j < deps.n { if deps.e[j].0 == id { let mut k = 0; while k < deps.e[j].1.n { out.push(Bytes([2, deps.e[j].1.items[k].0])); k += 1; } } j += 1; }
        out
    }
    fn flat(txs: &[Arc<CheckedTransaction>; 2]) -> Vec<(RollupId, Bytes)> { let mut v = Vec::new(); let mut t = 0; while t < 2 { let mut i = 0; while i < txs[t].n { v.push(txs[t].subs[i]); i += 1; } t += 1; } v }
    fn same_list(a: &Vec<Bytes>, b: &Vec<Bytes>) -> bool { let mut ok = a.n == b.n; let mut i = 0; while i < a.n && i < b.n { ok = ok && a.items[i].0[0] == b.items[i].0[0] && a.items[i].0[1] == b.items[i].0[1]; i += 1; } ok }
    fn same4(a: &[u8; 4], b: &[u8; 4]) -> bool { a[0] == b[0] && a[1] == b[1] && a[2] == b[2] && a[3] == b[3] }

    // ---- the block builder accepts the commitments the sequencer generates for the same data, and what it stores per rollup is exactly the specification ----
    fn builder_contract(total: usize, nd: usize) {
        let (txs, _n, deps) = any_block(total, nd);
        let commitments = generate_rollup_datas_commitment::<true>(&txs, deps);
        let mut deps_b = deps; deps_b.swap = kani::any();                                   // the builder may see the deposit map in a different iteration order
        let ebd = ExpandedBlockData { rollup_transactions_root: commitments.rollup_datas_root, rollup_ids_root: commitments.rollup_ids_root, ..Default::default() };
        let b = SequencerBlockBuilder { block_hash: Hash(1), chain_id: tendermint::chain::Id(2), height: tendermint::block::Height(3), time: Time(4), proposer_address: account::Id(5), expanded_block_data: ebd,
                                        rollup_data_bytes: flat(&txs), deposits: deps_b };
        let block = match b.try_build() { Ok(b) => b, Err(_) => { assert!(false); return; } };          // honest data is always buildable
        let rt = &block.rollup_transactions;
        // exactly the rollups with data, in ascending id order, each with exactly its own data in order
        let mut id = 0u8;
        while id < 3 {
            let want = expected(RollupId([id]), &txs, &deps);
            let pos = { let mut p = CAP; let mut i = 0; while i < rt.n { if rt.ks[i] == RollupId([id]) { p = i; } i += 1; } p };
            assert!((pos < CAP) == (want.n > 0));
            if pos < CAP {
                let e = rt.vs[pos];        // by value: a reference to an array element at a symbolic index made Kani report a spurious failure here
                assert!(e.rollup_id == RollupId([id]) && same_list(&e.transactions, &want));
                // its proof is the proof of its own position in the tree whose root is the block's rollup-transactions root
                assert!(e.proof.index == pos && e.proof.tree_size == rt.n && same4(&e.proof.root, &block.header.rollup_transactions_root));
            }
            id += 1;
        }
        let mut i = 1; while i < rt.n { assert!(rt.ks[i - 1] < rt.ks[i]); i += 1; }
        // the commitment is over leaves  id ‖ MTH(that rollup's data)  in that order
        let mut spec = merkle::Tree::new(); let mut i = 0;
        while i < rt.n { let r = merkle::Tree::from_leaves(rt.vs[i].transactions.as_ref()).root(); spec.build_leaf().write(rt.ks[i].as_ref()).write(&r); i += 1; }
        assert!(same4(&spec.root(), &block.header.rollup_transactions_root));
    }
    #[kani::proof] #[kani::unwind(7)] fn builder_contract_0_submissions_0_deposit_groups() { builder_contract(0, 0); }
    #[kani::proof] #[kani::unwind(7)] fn builder_contract_1_submissions_0_deposit_groups() { builder_contract(1, 0); }
    #[kani::proof] #[kani::unwind(7)] fn builder_contract_2_submissions_0_deposit_groups() { builder_contract(2, 0); }
    #[kani::proof] #[kani::unwind(7)] fn builder_contract_0_submissions_1_deposit_groups() { builder_contract(0, 1); }
    #[kani::proof] #[kani::unwind(7)] fn builder_contract_1_submissions_1_deposit_groups() { builder_contract(1, 1); }
    #[kani::proof] #[kani::unwind(7)] fn builder_contract_2_submissions_1_deposit_groups() { builder_contract(2, 1); }
    #[kani::proof] #[kani::unwind(7)] fn builder_contract_0_submissions_2_deposit_groups() { builder_contract(0, 2); }
    #[kani::proof] #[kani::unwind(7)] fn builder_contract_1_submissions_2_deposit_groups() { builder_contract(1, 2); }
    #[kani::proof] #[kani::unwind(7)] fn builder_contract_2_submissions_2_deposit_groups() { builder_contract(2, 2); }
    // ---- a block whose commitments do not match its data is refused ------------------------------------------------------------------------------
    #[kani::proof]
    #[kani::unwind(7)]
    fn builder_refuses_commitments_that_do_not_match() {
        let (txs, _n, deps) = any_block(1, 1);
        let commitments = generate_rollup_datas_commitment::<true>(&txs, deps);
        let claimed_txs_root: [u8; 4] = kani::any(); let claimed_ids_root: [u8; 4] = kani::any();
        kani::assume(!same4(&claimed_txs_root, &commitments.rollup_datas_root) || !same4(&claimed_ids_root, &commitments.rollup_ids_root));
        let ebd = ExpandedBlockData { rollup_transactions_root: claimed_txs_root, rollup_ids_root: claimed_ids_root, ..Default::default() };
        let b = SequencerBlockBuilder { block_hash: Hash(1), chain_id: tendermint::chain::Id(2), height: tendermint::block::Height(3), time: Time(4), proposer_address: account::Id(5), expanded_block_data: ebd,
                                        rollup_data_bytes: flat(&txs), deposits: deps };
        assert!(b.try_build().is_err());
    }
    #[kani::proof]
    #[kani::unwind(7)]
    fn canary_block_with_two_rollups_reachable() {
        let (txs, _n, deps) = any_block(1, 1);
        let commitments = generate_rollup_datas_commitment::<true>(&txs, deps);
        let ebd = ExpandedBlockData { rollup_transactions_root: commitments.rollup_datas_root, rollup_ids_root: commitments.rollup_ids_root, ..Default::default() };
        let b = SequencerBlockBuilder { block_hash: Hash(1), chain_id: tendermint::chain::Id(2), height: tendermint::block::Height(3), time: Time(4), proposer_address: account::Id(5), expanded_block_data: ebd,
                                        rollup_data_bytes: flat(&txs), deposits: deps };
        if let Ok(block) = b.try_build() { assert!(block.rollup_transactions.n < 2); }       // must FAIL
    }
'''

UNIT = dict(
    name="c07_builder", mode="K", properties=["C07"],
    shim_files=["shims/common.rs"],
    prelude=PRELUDE,
    items=[
        dict(file=P, path="fn group_rollup_data_submissions_by_rollup_id"),
        dict(file=V, path="fn derive_merkle_tree_from_rollup_txs"),
        dict(file=S, path="impl SequencerBlockBuilder/fn try_build"),
        dict(file=C, path="fn generate_rollup_datas_commitment"),
    ],
    harness=HARNESS,
    harnesses=[
        dict(name="builder_contract_0_submissions_0_deposit_groups", obligation="generate_rollup_datas_commitment+SequencerBlockBuilder::try_build::ensures#agree+per-rollup-data==payloads-in-block-order++deposits+ids==rollups-with-data-ascending+proof-of-own-leaf[0 submissions,0 deposit groups]", bounded="blocks with exactly 0 data submissions over 3 rollup ids and deposits (1-2 each) for exactly 0 rollups", tier="thorough"),
        dict(name="builder_contract_1_submissions_0_deposit_groups", obligation="generate_rollup_datas_commitment+SequencerBlockBuilder::try_build::ensures#agree+per-rollup-data==payloads-in-block-order++deposits+ids==rollups-with-data-ascending+proof-of-own-leaf[1 submissions,0 deposit groups]", bounded="blocks with exactly 1 data submissions over 3 rollup ids and deposits (1-2 each) for exactly 0 rollups", tier="thorough"),
        dict(name="builder_contract_2_submissions_0_deposit_groups", obligation="generate_rollup_datas_commitment+SequencerBlockBuilder::try_build::ensures#agree+per-rollup-data==payloads-in-block-order++deposits+ids==rollups-with-data-ascending+proof-of-own-leaf[2 submissions,0 deposit groups]", bounded="blocks with exactly 2 data submissions over 3 rollup ids and deposits (1-2 each) for exactly 0 rollups", tier="thorough"),
        dict(name="builder_contract_0_submissions_1_deposit_groups", obligation="generate_rollup_datas_commitment+SequencerBlockBuilder::try_build::ensures#agree+per-rollup-data==payloads-in-block-order++deposits+ids==rollups-with-data-ascending+proof-of-own-leaf[0 submissions,1 deposit groups]", bounded="blocks with exactly 0 data submissions over 3 rollup ids and deposits (1-2 each) for exactly 1 rollups", tier="thorough"),
        dict(name="builder_contract_1_submissions_1_deposit_groups", obligation="generate_rollup_datas_commitment+SequencerBlockBuilder::try_build::ensures#agree+per-rollup-data==payloads-in-block-order++deposits+ids==rollups-with-data-ascending+proof-of-own-leaf[1 submissions,1 deposit groups]", bounded="blocks with exactly 1 data submissions over 3 rollup ids and deposits (1-2 each) for exactly 1 rollups", tier="thorough"),
        dict(name="builder_contract_2_submissions_1_deposit_groups", obligation="generate_rollup_datas_commitment+SequencerBlockBuilder::try_build::ensures#agree+per-rollup-data==payloads-in-block-order++deposits+ids==rollups-with-data-ascending+proof-of-own-leaf[2 submissions,1 deposit groups]", bounded="blocks with exactly 2 data submissions over 3 rollup ids and deposits (1-2 each) for exactly 1 rollups"),
        dict(name="builder_contract_0_submissions_2_deposit_groups", obligation="generate_rollup_datas_commitment+SequencerBlockBuilder::try_build::ensures#agree+per-rollup-data==payloads-in-block-order++deposits+ids==rollups-with-data-ascending+proof-of-own-leaf[0 submissions,2 deposit groups]", bounded="blocks with exactly 0 data submissions over 3 rollup ids and deposits (1-2 each) for exactly 2 rollups", tier="thorough"),
        dict(name="builder_contract_1_submissions_2_deposit_groups", obligation="generate_rollup_datas_commitment+SequencerBlockBuilder::try_build::ensures#agree+per-rollup-data==payloads-in-block-order++deposits+ids==rollups-with-data-ascending+proof-of-own-leaf[1 submissions,2 deposit groups]", bounded="blocks with exactly 1 data submissions over 3 rollup ids and deposits (1-2 each) for exactly 2 rollups"),
        dict(name="builder_contract_2_submissions_2_deposit_groups", obligation="generate_rollup_datas_commitment+SequencerBlockBuilder::try_build::ensures#agree+per-rollup-data==payloads-in-block-order++deposits+ids==rollups-with-data-ascending+proof-of-own-leaf[2 submissions,2 deposit groups]", bounded="blocks with exactly 2 data submissions over 3 rollup ids and deposits (1-2 each) for exactly 2 rollups", tier="thorough"),
        dict(name="builder_refuses_commitments_that_do_not_match", obligation="SequencerBlockBuilder::try_build::ensures#mismatching-commitment=>Err", bounded="blocks with 1 data submission and deposits for 1 rollup"),
        dict(name="canary_block_with_two_rollups_reachable", expect="fail"),
    ],
    harness_timeout=1200, jobs=4,
    assumptions=["Vec, IndexMap, HashMap (arbitrary iteration order over 2 entries), Box, Arc are fixed-capacity stand-ins; merkle::Tree remembers its leaves and digests them deterministically (that a root binds its leaves is C08 under H-inj); protobuf encoding of RollupData is an injective tagging of one content byte",
                 "SequencerBlockBuilder / ExpandedBlockData / SequencerBlock / RollupTransactions / GeneratedCommitments are stand-in structs with the field names of the real ones (the function bodies destructure them exhaustively); roots are 4 bytes",
                 "deposit lists handed to the builder are non-empty (the block's deposit cache only holds rollups with at least one deposit)",
                 "NOT under contract: gRPC filtering to a subset of rollups, relayer split_for_celestia, SequencerBlock::try_from_raw"],
)
