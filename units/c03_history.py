# Lifting lemma for C03 over the step contract discharged by unit c03_tx (Kani): no function of /repo is cut here.
LEMMAS = r'''
/// signing fixes the nonce of a transaction: the nonce is part of the signed body
pub uninterp spec fn signed_nonce(tx: nat) -> nat;
/// one attempt to execute a signed transaction of an account: the step contract of CheckedTransaction::execute / App::execute_transaction
/// (unit c03_tx): it takes effect only if its nonce equals the stored nonce, which then grows by exactly one; otherwise, or if any action fails, nothing changes.
pub struct Attempt { pub tx: nat, pub actions_ok: bool }
pub struct Acct { pub nonce: nat, pub applied: Seq<nat> }     // applied[i] = id of the i-th transaction that took effect

pub open spec fn step(a: Acct, t: Attempt) -> Acct {
    if signed_nonce(t.tx) == a.nonce && t.actions_ok { Acct { nonce: a.nonce + 1, applied: a.applied.push(t.tx) } } else { a }
}
pub open spec fn run(a0: Acct, ts: Seq<Attempt>) -> Acct decreases ts.len()
{ if ts.len() == 0 { a0 } else { step(run(a0, ts.drop_last()), ts.last()) } }

/// the k-th transaction that took effect ran under nonce start+k
pub open spec fn inv(a: Acct, a0: Acct) -> bool {
    &&& a.nonce == a0.nonce + a.applied.len()
    &&& forall|k: int| 0 <= k < a.applied.len() ==> signed_nonce(#[trigger] a.applied[k]) == a0.nonce + k
}
pub proof fn lemma_run_inv(a0: Acct, ts: Seq<Attempt>)
    requires a0.applied.len() == 0,
    ensures inv(run(a0, ts), a0)
    decreases ts.len()
{
    if ts.len() > 0 {
        lemma_run_inv(a0, ts.drop_last());
        let a = run(a0, ts.drop_last()); let a2 = run(a0, ts);
        assert forall|k: int| 0 <= k < a2.applied.len() implies signed_nonce(#[trigger] a2.applied[k]) == a0.nonce + k by {
            if k < a.applied.len() { assert(a2.applied[k] == a.applied[k]); }
        }
    }
}
/// For every history of execution attempts (replays, reorderings, failing transactions, any interleaving of blocks and proposals):
/// a signed transaction takes effect at most once, and the transactions of an account take effect in strictly increasing nonce order without gaps.
pub proof fn lemma_at_most_once_in_nonce_order(a0: Acct, ts: Seq<Attempt>)
    requires a0.applied.len() == 0,
    ensures ({ let a = run(a0, ts);
        &&& forall|k: int, l: int| 0 <= k < l < a.applied.len() ==> a.applied[k] != a.applied[l]
        &&& forall|k: int| 0 <= k < a.applied.len() ==> signed_nonce(#[trigger] a.applied[k]) == a0.nonce + k
        &&& a.nonce == a0.nonce + a.applied.len() })
{
    lemma_run_inv(a0, ts);
}
/// non-vacuity witness: a fresh transaction with the right nonce is applied, its replay is not
pub proof fn witness_applied_once(tx: nat)
{
    let a0 = Acct { nonce: signed_nonce(tx), applied: Seq::empty() };
    let t = Attempt { tx, actions_ok: true };
    let ts1 = seq![t]; let ts2 = seq![t, t];
    assert(ts1.drop_last() =~= Seq::<Attempt>::empty());
    assert(run(a0, ts1.drop_last()) == a0);
    assert(run(a0, ts1).applied =~= seq![tx]);
    assert(ts2.drop_last() =~= ts1);
    assert(run(a0, ts2).applied =~= seq![tx]);
}
'''
UNIT = dict(
    name="c03_history", mode="V", properties=["C03"],
    prelude="", items=[], lemmas=LEMMAS,
    assumptions=["the transition relation `step` is a transcription of the step contract proved by Kani in unit c03_tx (nonce equality, +1, nothing on refusal or failure) — the transcription itself is trusted",
                 "a signed transaction has one nonce (`signed_nonce`: the ed25519 signature covers the body containing the nonce — trusted)"],
)
