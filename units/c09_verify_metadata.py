F = "crates/astria-conductor/src/celestia/verify.rs"

PRELUDE = r'''
use std::sync::Arc;

// ---- conductor/celestia shim (trusted): just enough of tendermint / astria-core / moka to compile the text ----
#[derive(Clone, Copy, Debug, PartialEq, Eq)]
pub struct SequencerHeight(pub u64);
impl SequencerHeight { pub fn value(&self) -> u64 { self.0 } }

/// a chain id of at most 3 bytes; `as_str` exposes exactly the stored bytes
#[derive(Clone, Copy, Debug, PartialEq, Eq)]
pub struct ChainId { pub bytes: [u8; 3], pub len: usize }
impl ChainId {
    pub fn as_str(&self) -> &str { unsafe { std::str::from_utf8_unchecked(&self.bytes[..self.len]) } }
    pub fn any() -> Self {
        let bytes: [u8; 3] = kani::any();
        let len: usize = kani::any();
        kani::assume(len <= 3);
        kani::assume(bytes[0] < 128 && bytes[1] < 128 && bytes[2] < 128);
        ChainId { bytes, len }
    }
}
pub mod block {
    #[derive(Clone, Copy, Debug, PartialEq, Eq)]
    pub struct Hash(pub [u8; 32]);
    impl Hash { pub fn as_bytes(&self) -> &[u8] { &self.0 } }
}
#[derive(Clone, Copy, Debug, PartialEq, Eq)]
pub struct TmHash { pub bytes: [u8; 32], pub len: usize }   // tendermint::Hash: 32 bytes or empty
impl TmHash { pub fn as_bytes(&self) -> &[u8] { &self.bytes[..self.len] } }
#[derive(Clone, Copy, Debug)] pub struct BlockId { pub hash: TmHash }
#[derive(Clone, Copy, Debug)] pub struct Commit { pub block_id: BlockId }
#[derive(Clone, Copy, Debug)] pub struct Header { pub chain_id: ChainId }
#[derive(Clone, Copy, Debug)] pub struct SignedHeader { pub header: Header, pub commit: Commit }
#[derive(Clone, Copy, Debug)] pub struct VerificationMeta { pub commit_header: SignedHeader }
impl VerificationMeta {
    /// the real `fetch` (RPC + ensure_commit_has_quorum, units c09_tally / c09_quorum) is outside this unit: an arbitrary outcome
    pub fn fetch(_client: RateLimitedVerificationClient, _height: SequencerHeight) -> Result<VerificationMeta, BoxError> { if kani::any() { Ok(any_meta()) } else { Err(BoxError) } }
}
pub fn any_meta() -> VerificationMeta {
    let tm_len: usize = if kani::any() { 32 } else { 0 };
    VerificationMeta { commit_header: SignedHeader { header: Header { chain_id: ChainId::any() }, commit: Commit { block_id: BlockId { hash: TmHash { bytes: kani::any(), len: tm_len } } } } }
}
#[derive(Clone, Copy, Debug, PartialEq, Eq)]
pub struct SubmittedMetadata { pub height: SequencerHeight, pub chain_id: ChainId, pub block_hash: block::Hash }
impl SubmittedMetadata {
    pub fn height(&self) -> SequencerHeight { self.height }
    pub fn cometbft_chain_id(&self) -> &ChainId { &self.chain_id }
    pub fn block_hash(&self) -> &block::Hash { &self.block_hash }
}
#[derive(Clone, Copy, Debug)] pub struct RateLimitedVerificationClient;
#[derive(Debug)] pub struct BoxError;
impl From<eyre::Report> for BoxError { fn from(_e: eyre::Report) -> Self { BoxError } }
impl BoxError { pub fn as_ref(&self) -> &Self { self } }

pub static mut CACHE_ANSWER: Option<VerificationMeta> = None;
pub static mut CACHE_ASKED: Option<SequencerHeight> = None;
pub struct Cache<K, V> { _k: std::marker::PhantomData<(K, V)> }
impl Cache<SequencerHeight, VerificationMeta> {
    /// moka's try_get_with: on a hit the cached value (an earlier quorum-checked commit for this height: arbitrary) is returned and the
    /// initialiser is NOT consulted; on a miss the initialiser's outcome is returned (and cached if Ok).  The initialiser arrives already
    /// evaluated because rule R2 made the future eager; its value is used only on a miss, as in moka.
    pub fn try_get_with(&self, key: SequencerHeight, init: Result<VerificationMeta, BoxError>) -> Result<VerificationMeta, Arc<BoxError>> {
        unsafe { CACHE_ASKED = Some(key); }
        let hit: bool = kani::any();
        let r = if hit { std::mem::forget(init); Ok(any_meta()) } else { init.map_err(Arc::new) };
        unsafe { CACHE_ANSWER = match &r { Ok(m) => Some(*m), Err(_) => None }; }
        r
    }
}
mod base64 { pub mod prelude { pub struct B; impl B { pub fn encode(&self, _x: &[u8]) -> u8 { 0 } } pub const BASE64_STANDARD: B = B; } }
'''

HARNESS = r'''
    #[kani::proof]
    #[kani::unwind(34)]
    fn verify_metadata_accepts_only_commit_bound() {
        let v = Arc::new(BlobVerifier { cache: Cache { _k: std::marker::PhantomData }, client: RateLimitedVerificationClient });
        let md = SubmittedMetadata { height: SequencerHeight(kani::any()), chain_id: ChainId::any(), block_hash: block::Hash(kani::any()) };
        let out = v.verify_metadata(md);
        let answer = unsafe { CACHE_ANSWER };
        let asked = unsafe { CACHE_ASKED };
        assert!(asked == Some(md.height));                       // verified against the commit of the metadata's own height
        match out {
            Some(m) => {
                assert!(m == md);                                // the accepted value is the submitted one, unmodified
                let meta = answer.unwrap();                      // accepted only if a quorum-checked commit was obtained
                assert!(meta.commit_header.header.chain_id.as_str() == m.chain_id.as_str());           // chain id equals the commit's
                assert!(meta.commit_header.commit.block_id.hash.as_bytes() == &m.block_hash.0[..]);    // block hash equals the commit's
            }
            None => {
                // nothing is dropped that matches (no honest metadata is lost)
                if let Some(meta) = answer {
                    assert!(!(meta.commit_header.header.chain_id.as_str() == md.chain_id.as_str()
                        && meta.commit_header.commit.block_id.hash.as_bytes() == &md.block_hash.0[..]));
                }
            }
        }
    }
    #[kani::proof]
    #[kani::unwind(34)]
    fn canary_verify_metadata_reaches_some() {
        let v = Arc::new(BlobVerifier { cache: Cache { _k: std::marker::PhantomData }, client: RateLimitedVerificationClient });
        let md = SubmittedMetadata { height: SequencerHeight(kani::any()), chain_id: ChainId::any(), block_hash: block::Hash(kani::any()) };
        assert!(v.verify_metadata(md).is_none());   // must FAIL: acceptance is reachable
    }
'''

UNIT = dict(
    name="c09_verify_metadata", mode="K", properties=["C09"],
    shim_files=["shims/common.rs"],
    prelude=PRELUDE,
    items=[
        dict(file=F, path="struct BlobVerifier"),
        dict(file=F, path="impl BlobVerifier/fn verify_metadata"),
        dict(file=F, path="fn ensure_chain_ids_match"),
        dict(file=F, path="fn ensure_block_hashes_match"),
    ],
    harness=HARNESS,
    harnesses=[
        dict(name="verify_metadata_accepts_only_commit_bound",
             obligation="BlobVerifier::verify_metadata::ensures#Some=>chain-id-and-block-hash-equal-commit",
             label="metadata is accepted only if its chain id and block hash equal those of the quorum-checked commit at its height"),
        dict(name="canary_verify_metadata_reaches_some", expect="fail"),
    ],
    assumptions=[
        "VerificationMeta::fetch (RPC + ensure_commit_has_quorum) is replaced by an arbitrary Ok(meta)/Err outcome of the cache; quorum itself is units c09_quorum / c09_tally",
        "chain ids are modelled as byte strings of length <= 3, hashes as full 32-byte arrays (tendermint Hash: 32 bytes or empty)",
        "moka Cache semantics (returns the value computed for the key) trusted",
    ],
)
