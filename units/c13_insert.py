# MempoolInner::insert and ::remove_tx_invalid against the same contract-level container stand-ins as c13_maintenance.  properties: "C13"
import importlib.util, os
_spec = importlib.util.spec_from_file_location("vx_c13_base", os.path.join(os.path.dirname(os.path.abspath(__file__)), "c13_maintenance.py"))
_base = importlib.util.module_from_spec(_spec); _spec.loader.exec_module(_base)
F = _base.F

PRELUDE = _base.PRELUDE + r'''
// ---- additions for insert / remove_tx_invalid ----------------------------------------------------------------------------------------------
#[derive(Clone, Copy, Debug, Default, PartialEq, Eq)] pub struct CheckedTransaction { pub id: TransactionId, pub nonce: u32 }
impl CheckedTransaction { pub fn id(&self) -> &TransactionId { &self.id } pub fn nonce(&self) -> u32 { self.nonce } pub fn address_bytes(&self) -> &[u8; ADDRESS_LENGTH] { &ACCOUNT } }
impl<T> std::ops::Deref for Arc<T> { type Target = T; fn deref(&self) -> &T { &self.0 } }
pub type TimemarkedTransaction = Ttx;
impl Ttx {
    pub fn new(tx: Arc<CheckedTransaction>, costs: HashMap<IbcPrefixed, u128>) -> Ttx { Ttx { id: tx.id, nonce: tx.nonce, cost: if costs.bal > u16::MAX as u32 { u16::MAX } else { costs.bal as u16 } } }
    pub fn nonce(&self) -> u32 { self.nonce }
    pub fn address_bytes(&self) -> &[u8; ADDRESS_LENGTH] { &ACCOUNT }
}
impl<T: Copy + Default> Vec<T> { pub fn append(&mut self, other: &mut Vec<T>) { let mut i = 0; while i < other.n { self.push(other.items[i]); i += 1; } other.n = 0; } }
/// removes the transaction WITH THAT NONCE and every higher nonce of the account (contract of TransactionsContainer::remove)
fn split_off(txs: &mut Vec<Ttx>, nonce: u32) -> Vec<TransactionId> {
    let mut hit = false; let mut i = 0; while i < txs.n { if txs.items[i].nonce == nonce { hit = true; } i += 1; }
    let mut gone = Vec::new(); if !hit { return gone; }
    let mut keep = Vec::new(); let mut i = 0; while i < txs.n { let t = txs.items[i]; if t.nonce >= nonce { gone.push(t.id); } else { keep.push(t); } i += 1; }
    *txs = keep; gone
}
impl PendingTransactions {
    pub fn remove(&mut self, tx: Arc<CheckedTransaction>) -> Result<Vec<TransactionId>, Arc<CheckedTransaction>> { let r = split_off(&mut self.txs, tx.nonce); if r.n == 0 { Err(tx) } else { Ok(r) } }
}
impl<const N: usize> ParkedTransactions<N> {
    pub fn remove(&mut self, tx: Arc<CheckedTransaction>) -> Result<Vec<TransactionId>, Arc<CheckedTransaction>> { let r = split_off(&mut self.txs, tx.nonce); if r.n == 0 { Err(tx) } else { Ok(r) } }
    pub fn clear_account(&mut self, _a: &[u8; ADDRESS_LENGTH]) -> Vec<TransactionId> { let mut out = Vec::new(); let mut i = 0; while i < self.txs.n { out.push(self.txs.items[i].id); i += 1; } self.txs = Vec::new(); out }
    pub fn len(&self) -> usize { self.txs.n }
}
impl Metrics { pub fn set_transactions_in_mempool_parked(&self, _n: usize) {} }
'''

HARNESS = r'''
    fn any_ttx(id: u8) -> Ttx { Ttx { id: TransactionId(id), nonce: kani::any(), cost: kani::any() } }
    /// mempool of ACCOUNT in a state satisfying its invariant with respect to (current nonce, balance): pending consecutive from the account nonce and affordable,
    /// parked with increasing nonces above pending, ids distinct, membership index exact
    fn any_mempool(np: usize, nk: usize, current_nonce: u32, balance: u32) -> MempoolInner {
        let mut pending = Vec::new(); let mut parked = Vec::new(); let mut contained = HashSet::new();
        let mut acc: u32 = 0;
        let mut i = 0; while i < np { let mut t = any_ttx(i as u8); t.nonce = current_nonce + i as u32; acc += t.cost as u32; pending.push(t); contained.insert(t.id); i += 1; }
        kani::assume(acc <= balance);
        let mut last = if np == 0 { current_nonce } else { current_nonce + np as u32 - 1 };
        let mut first = true;
        let mut j = 0; while j < nk { let mut t = any_ttx(10 + j as u8); kani::assume(t.nonce < 16 && if first && np == 0 { t.nonce >= last } else { t.nonce > last }); first = false; last = t.nonce; parked.push(t); contained.insert(t.id); j += 1; }
        unsafe { LOGIC_ERRORS = 0; }
        MempoolInner { pending: PendingTransactions { txs: pending }, parked: ParkedTransactions { txs: parked }, comet_bft_removal_cache: RemovalCache { cache: Vec::new() },
                       recent_execution_results: RecentExecutionResults, contained_txs: contained, metrics: &METRICS }
    }
    fn in_list(v: &Vec<Ttx>, id: TransactionId) -> bool { let mut i = 0; while i < v.n { if v.items[i].id == id { return true; } i += 1; } false }
    fn reported(m: &MempoolInner, id: TransactionId) -> bool { let mut r = 0; let mut hit = false; while r < m.comet_bft_removal_cache.cache.n { if m.comet_bft_removal_cache.cache.items[r].0 == id { hit = true; } r += 1; } hit }
    /// every transaction that was in the mempool is in exactly one of ready / parked / reported-removed, and the membership index agrees
    fn assert_old_txs_accounted(m: &MempoolInner, before: &(PendingTransactions, ParkedTransactions<MAX_PARKED_TXS_PER_ACCOUNT>)) {
        let mut k = 0;
        while k < 2 {
            let olds = if k == 0 { before.0.txs } else { before.1.txs };
            let mut i = 0;
            while i < olds.n { let id = olds.items[i].id;
                let places = (in_list(&m.pending.txs, id) as u8) + (in_list(&m.parked.txs, id) as u8);
                assert!(places <= 1); assert!(places == 1 || reported(m, id)); assert!(!(places == 1 && reported(m, id)));
                assert!(m.contained_txs.contains(&id) == (places == 1));
                i += 1; }
            k += 1;
        }
    }
    fn assert_ready_queue(m: &MempoolInner, current_nonce: u32, balance: u32) {
        let mut i = 0; let mut acc: u32 = 0;
        while i < m.pending.txs.n { let t = m.pending.txs.items[i]; assert!(t.nonce == current_nonce + i as u32); acc = acc.saturating_add(t.cost as u32); i += 1; }
        assert!(acc <= balance);
    }

    fn insert_contract(np: usize, nk: usize) {
        let current_nonce: u32 = kani::any(); let balance: u32 = kani::any(); kani::assume(current_nonce < 8);
        let mut m = any_mempool(np, nk, current_nonce, balance);
        let before = (m.pending, m.parked);
        let tx = CheckedTransaction { id: TransactionId(99), nonce: kani::any() };          // a transaction the mempool does not hold yet (the service checks transaction_status first)
        kani::assume(tx.nonce < 16);
        let cost: u32 = kani::any();
        let r = m.insert(Arc(tx), current_nonce, &HashMap { bal: balance, _m: std::marker::PhantomData }, HashMap { bal: cost, _m: std::marker::PhantomData });
        let places = (in_list(&m.pending.txs, tx.id) as u8) + (in_list(&m.parked.txs, tx.id) as u8);
        match r {
            Ok(InsertionStatus::AddedToPending) => { assert!(in_list(&m.pending.txs, tx.id) && places == 1 && m.contained_txs.contains(&tx.id)); }
            Ok(InsertionStatus::AddedToParked) => { assert!(in_list(&m.parked.txs, tx.id) && places == 1 && m.contained_txs.contains(&tx.id)); assert!(m.pending.txs.n == before.0.txs.n); }
            Err(_) => { assert!(places == 0 && !m.contained_txs.contains(&tx.id)); assert!(m.pending.txs.n == before.0.txs.n && m.parked.txs.n == before.1.txs.n && m.comet_bft_removal_cache.cache.n == 0); }
        }
        assert!(!reported(&m, tx.id));
        assert_old_txs_accounted(&m, &before);
        assert_ready_queue(&m, current_nonce, balance);
        assert!(m.parked.txs.n <= MAX_PARKED_TXS_PER_ACCOUNT);
    }
    fn remove_invalid_contract(np: usize, nk: usize) {
        let current_nonce: u32 = kani::any(); let balance: u32 = kani::any(); kani::assume(current_nonce < 8);
        let mut m = any_mempool(np, nk, current_nonce, balance);
        let before = (m.pending, m.parked);
        // the failing transaction: one of the mempool's own, or a foreign one (a block transaction of another proposer)
        let tx = CheckedTransaction { id: TransactionId(kani::any()), nonce: kani::any() };
        kani::assume(tx.nonce < 16);
        let was_pending = in_list(&before.0.txs, tx.id); let was_parked = in_list(&before.1.txs, tx.id);
        if was_pending { let mut i = 0; while i < before.0.txs.n { if before.0.txs.items[i].id == tx.id { kani::assume(before.0.txs.items[i].nonce == tx.nonce); } i += 1; } }
        if was_parked { let mut i = 0; while i < before.1.txs.n { if before.1.txs.items[i].id == tx.id { kani::assume(before.1.txs.items[i].nonce == tx.nonce); } i += 1; } }
        m.remove_tx_invalid(Arc(tx), RemovalReason::Expired);
        assert_old_txs_accounted(&m, &before);
        if was_pending || was_parked {
            // the transaction itself is gone and reported with the given reason; nothing of the account with a higher nonce stays ready
            assert!(!in_list(&m.pending.txs, tx.id) && !in_list(&m.parked.txs, tx.id) && !m.contained_txs.contains(&tx.id));
            let mut r = 0; let mut ok = false; while r < m.comet_bft_removal_cache.cache.n { let e = m.comet_bft_removal_cache.cache.items[r]; if e.0 == tx.id { ok = e.1 == RemovalReason::Expired; } r += 1; } assert!(ok);
        }
        let mut i = 0; while i < m.pending.txs.n { assert!(m.pending.txs.items[i].nonce < tx.nonce || !was_pending); i += 1; }
        if was_pending { assert!(m.parked.txs.n == 0); }                                   // dependents of a failed ready transaction cannot execute either
        assert_ready_queue(&m, current_nonce, balance);
    }
    #[kani::proof] #[kani::unwind(5)] #[kani::stub(alloc::fmt::format, crate::vx_stub_format)] fn insert_contract_0_ready_2_parked() { insert_contract(0, 2); }
    #[kani::proof] #[kani::unwind(5)] #[kani::stub(alloc::fmt::format, crate::vx_stub_format)] fn insert_contract_1_ready_2_parked() { insert_contract(1, 2); }
    #[kani::proof] #[kani::unwind(5)] #[kani::stub(alloc::fmt::format, crate::vx_stub_format)] fn insert_contract_1_ready_1_parked() { insert_contract(1, 1); }
    #[kani::proof] #[kani::unwind(5)] #[kani::stub(alloc::fmt::format, crate::vx_stub_format)] fn insert_contract_2_ready_0_parked() { insert_contract(2, 0); }
    #[kani::proof] #[kani::unwind(5)] #[kani::stub(alloc::fmt::format, crate::vx_stub_format)] fn remove_invalid_contract_2_ready_1_parked() { remove_invalid_contract(2, 1); }
    #[kani::proof] #[kani::unwind(5)] #[kani::stub(alloc::fmt::format, crate::vx_stub_format)] fn remove_invalid_contract_1_ready_2_parked() { remove_invalid_contract(1, 2); }
    #[kani::proof] #[kani::unwind(5)] #[kani::stub(alloc::fmt::format, crate::vx_stub_format)] fn remove_invalid_contract_0_ready_2_parked() { remove_invalid_contract(0, 2); }
    #[kani::proof] #[kani::unwind(5)] #[kani::stub(alloc::fmt::format, crate::vx_stub_format)]
    fn canary_remove_of_ready_tx_reachable() {
        let current_nonce: u32 = kani::any(); let balance: u32 = kani::any(); kani::assume(current_nonce < 8);
        let mut m = any_mempool(2, 1, current_nonce, balance);
        let first = m.pending.txs.items[0];
        m.remove_tx_invalid(Arc(CheckedTransaction { id: first.id, nonce: first.nonce }), RemovalReason::Expired);
        assert!(m.comet_bft_removal_cache.cache.n < 3);      // must FAIL: the ready tx, its successor and the parked one are all reported
    }
    #[kani::proof] #[kani::unwind(5)] #[kani::stub(alloc::fmt::format, crate::vx_stub_format)]
    fn canary_insert_promotes_reachable() {
        let current_nonce: u32 = kani::any(); let balance: u32 = kani::any(); kani::assume(current_nonce < 8);
        let mut m = any_mempool(0, 2, current_nonce, balance);
        let tx = CheckedTransaction { id: TransactionId(99), nonce: kani::any() }; kani::assume(tx.nonce < 16);
        let r = m.insert(Arc(tx), current_nonce, &HashMap { bal: balance, _m: std::marker::PhantomData }, HashMap { bal: kani::any(), _m: std::marker::PhantomData });
        assert!(!(r.is_ok() && m.pending.txs.n == 3));      // must FAIL: the new transaction closes the gap and both parked ones are promoted
    }
'''

UNIT = dict(
    name="c13_insert", mode="K", properties=["C13"],
    shim_files=_base.UNIT["shim_files"],
    prelude=PRELUDE,
    items=[
        dict(file=F, path="struct MempoolInner"),
        dict(file=F, path="enum InsertionStatus", keep_derives={"Debug"}),
        dict(file=F, path="impl MempoolInner/fn insert"),
        dict(file=F, path="impl MempoolInner/fn remove_tx_invalid"),
    ],
    harness=HARNESS,
    harnesses=[dict(name="insert_contract_%d_ready_%d_parked" % (a, b), obligation="MempoolInner::insert::ensures#new-tx-in-exactly-one-place-or-refused-without-effect+old-txs-accounted+ready-queue-consecutive-and-affordable+parked-limit[%d ready,%d parked]" % (a, b),
                    bounded="one account, exactly %d ready and %d parked transactions, 16-bit costs, nonces < 16, parked limit 3" % (a, b)) for a, b in ((0, 2), (1, 2), (1, 1), (2, 0))] +
              [dict(name="remove_invalid_contract_%d_ready_%d_parked" % (a, b), obligation="MempoolInner::remove_tx_invalid::ensures#tx-and-dependents-removed-and-reported+old-txs-accounted+ready-queue[%d ready,%d parked]" % (a, b),
                    bounded="one account, exactly %d ready and %d parked transactions" % (a, b)) for a, b in ((2, 1), (1, 2), (0, 2))] +
              [dict(name="canary_insert_promotes_reachable", expect="fail"), dict(name="canary_remove_of_ready_tx_reachable", expect="fail")],
    harness_timeout=1200,
    assumptions=_base.UNIT["assumptions"][:2] + ["insert is called only for a transaction the mempool does not track (service::mempool::check_tx returns early on transaction_status != None; the window between that check and the insert under the write lock is not modelled)",
                 "TransactionsContainer::remove / clear_account are stand-ins implementing their contract: removal is by NONCE (the transaction with that nonce and every higher one of the account)",
                 "NOT under contract: Mempool (the async RwLock wrapper), builder_queue sorting, transaction expiry"],
)
