F = "crates/astria-sequencer/src/app/execution_state.rs"

PRELUDE = r'''
// ---- stand-ins for tendermint / bytes types: small finite values with equality; Vec is a 2-slot list ----
#[derive(Clone, Copy, Debug, PartialEq, Eq, Default)]
pub struct Vec<T: Copy> { pub items: [Option<T>; 2] }
#[allow(unused_macros)]
macro_rules! vec { () => { $crate::Vec { items: [None, None] } }; }
impl<T: Copy + kani::Arbitrary> Vec<T> { pub fn any() -> Self { Vec { items: [kani::any(), kani::any()] } } }
#[derive(Clone, Copy, Debug, PartialEq, Eq, Default, kani::Arbitrary)] pub struct Bytes(pub u8);
#[derive(Clone, Copy, Debug, PartialEq, Eq, Default, kani::Arbitrary)] pub struct Time(pub u8);
impl Time { pub fn unix_epoch() -> Self { Time(0) } }
#[derive(Clone, Copy, Debug, PartialEq, Eq, Default, kani::Arbitrary)] pub struct Hash(pub u8);
#[derive(Clone, Copy, Debug, PartialEq, Eq, Default, kani::Arbitrary)] pub struct CommitInfo(pub u8);
#[derive(Clone, Copy, Debug, PartialEq, Eq, Default, kani::Arbitrary)] pub struct Misbehavior(pub u8);
pub mod account { #[derive(Clone, Copy, Debug, PartialEq, Eq, Default, kani::Arbitrary)] pub struct Id(pub u8); impl Id { pub fn new(_b: [u8; 20]) -> Self { Id(0) } } }
pub mod block { #[derive(Clone, Copy, Debug, PartialEq, Eq, Default, kani::Arbitrary)] pub struct Height(pub u8); impl From<u8> for Height { fn from(v: u8) -> Self { Height(v) } } }
pub mod abci { pub mod request {
    pub struct ProcessProposal { pub time: crate::Time, pub proposer_address: crate::account::Id, pub txs: crate::Vec<crate::Bytes>, pub proposed_last_commit: Option<crate::CommitInfo>,
                                 pub misbehavior: crate::Vec<crate::Misbehavior>, pub height: crate::block::Height, pub next_validators_hash: crate::Hash, pub hash: crate::Hash }
} }
'''

HARNESS = r'''
    use crate::abci::request::ProcessProposal;
    fn any_proposal() -> CachedProposal {
        CachedProposal { time: kani::any(), proposer_address: kani::any(), txs: Vec::any(), proposed_last_commit: kani::any(), misbehavior: Vec::any(),
                         next_validators_hash: kani::any(), height: kani::any() }
    }
    fn any_state() -> ExecutionState {
        let k: u8 = kani::any();
        match k % 6 {
            0 => ExecutionState::Unset,
            1 => ExecutionState::Prepared(any_proposal()),
            2 => ExecutionState::PreparedValid(any_proposal()),
            3 => ExecutionState::CheckedPreparedMismatch(any_proposal()),
            4 => ExecutionState::ExecutedBlock { cached_block_hash: kani::any(), cached_proposal: if kani::any() { Some(any_proposal()) } else { None } },
            _ => ExecutionState::CheckedExecutedBlockMismatch { cached_block_hash: kani::any(), cached_proposal: if kani::any() { Some(any_proposal()) } else { None } },
        }
    }
    fn is_mismatch(s: &ExecutionState) -> bool { matches!(s, ExecutionState::CheckedPreparedMismatch(_) | ExecutionState::CheckedExecutedBlockMismatch { .. }) }

    #[kani::proof]
    #[kani::unwind(34)]
    fn check_if_prepared_proposal_contract() {
        let s0 = any_state();
        let mut m = ExecutionStateMachine(s0.clone());
        let req = ProcessProposal { time: kani::any(), proposer_address: kani::any(), txs: Vec::any(), proposed_last_commit: kani::any(), misbehavior: Vec::any(),
                                    height: kani::any(), next_validators_hash: kani::any(), hash: kani::any() };
        let fingerprint = CachedProposal { time: req.time, proposer_address: req.proposer_address, txs: req.txs, proposed_last_commit: req.proposed_last_commit,
                                           misbehavior: req.misbehavior, next_validators_hash: req.next_validators_hash, height: req.height };
        let r = m.check_if_prepared_proposal(req);
        match &s0 {
            ExecutionState::Prepared(c) | ExecutionState::PreparedValid(c) => {
                // cached execution may be reused only if the proposal is the cached one in EVERY field
                assert!(r == (c.time == fingerprint.time && c.proposer_address == fingerprint.proposer_address && c.txs == fingerprint.txs
                              && c.proposed_last_commit == fingerprint.proposed_last_commit && c.misbehavior == fingerprint.misbehavior
                              && c.next_validators_hash == fingerprint.next_validators_hash && c.height == fingerprint.height));
                if r { assert!(m.0 == ExecutionState::PreparedValid(c.clone())); } else { assert!(m.0 == ExecutionState::CheckedPreparedMismatch(c.clone())); }
            }
            _ => { assert!(!r); assert!(m.0 == s0); }     // in particular: mismatch states are absorbing
        }
    }
    #[kani::proof]
    #[kani::unwind(34)]
    fn canary_skip_execution_reachable() {
        let mut m = ExecutionStateMachine(any_state());
        assert!(!m.check_if_executed_block(kani::any()));     // must FAIL: the executed block is recognised
    }
    #[kani::proof]
    #[kani::unwind(34)]
    fn set_executed_block_contract() {
        let s0 = any_state();
        let mut m = ExecutionStateMachine(s0.clone());
        let h: [u8; 32] = kani::any();
        let r = m.set_executed_block(h);
        match &s0 {
            ExecutionState::Unset => { assert!(r.is_ok()); assert!(m.0 == ExecutionState::ExecutedBlock { cached_block_hash: h, cached_proposal: None }); }
            ExecutionState::PreparedValid(c) => { assert!(r.is_ok()); assert!(m.0 == ExecutionState::ExecutedBlock { cached_block_hash: h, cached_proposal: Some(c.clone()) }); }
            _ => { assert!(r.is_err()); assert!(m.0 == s0); }     // errors leave the machine unchanged
        }
    }
    #[kani::proof]
    #[kani::unwind(34)]
    fn check_if_executed_block_contract() {
        let s0 = any_state();
        let mut m = ExecutionStateMachine(s0.clone());
        let h: [u8; 32] = kani::any();
        let r = m.check_if_executed_block(h);
        match &s0 {
            ExecutionState::ExecutedBlock { cached_block_hash, cached_proposal } => {
                assert!(r == (*cached_block_hash == h));             // skip execution only for the very block that was executed
                if r { assert!(m.0 == s0); } else { assert!(m.0 == ExecutionState::CheckedExecutedBlockMismatch { cached_block_hash: *cached_block_hash, cached_proposal: cached_proposal.clone() }); }
            }
            ExecutionState::Prepared(c) | ExecutionState::PreparedValid(c) => { assert!(!r); assert!(m.0 == ExecutionState::CheckedPreparedMismatch(c.clone())); }
            _ => { assert!(!r); assert!(m.0 == s0); }
        }
        if is_mismatch(&s0) { assert!(m.0 == s0 && !r); }
    }
'''

UNIT = dict(
    name="c05_execution_state", mode="K", properties=["C05"],
    shim_files=["shims/common.rs"],
    prelude=PRELUDE,
    use="use crate::eyre::Result;",
    items=[
        dict(file=F, path="struct CachedProposal", keep_derives={"Clone", "PartialEq", "Eq"}, add_derive="Debug"),
        dict(file=F, path="impl Default for CachedProposal"),
        dict(file=F, path="enum ExecutionState"),
        dict(file=F, path="struct ExecutionStateMachine"),
        dict(file=F, path="impl ExecutionStateMachine/fn check_if_prepared_proposal"),
        dict(file=F, path="impl ExecutionStateMachine/fn set_executed_block"),
        dict(file=F, path="impl ExecutionStateMachine/fn check_if_executed_block"),
    ],
    harness=HARNESS,
    harnesses=[
        dict(name="check_if_prepared_proposal_contract", obligation="ExecutionStateMachine::check_if_prepared_proposal::ensures#true-iff-cached-fingerprint-equals-request-in-every-field+transition"),
        dict(name="canary_skip_execution_reachable", expect="fail"),
        dict(name="set_executed_block_contract", obligation="ExecutionStateMachine::set_executed_block::ensures#total-transition-relation+errors-leave-unchanged"),
        dict(name="check_if_executed_block_contract", obligation="ExecutionStateMachine::check_if_executed_block::ensures#true-iff-same-hash+mismatch-absorbing"),
    ],
    assumptions=["tendermint/bytes field types are small finite stand-ins with equality; Vec fields are 2-slot lists (the functions only move, take and compare them)",
                 "set_prepared_proposal (conversion of the extended last commit) is not under contract",
                 "NOT decided here: that App::process_proposal/finalize_block use this machine correctly, and path-independence of execution below it (oracle price application order, see known candidate K2 in DESIGN §7)"],
)
