F = "crates/astria-conductor/src/celestia/block_verifier.rs"

PRELUDE = r'''
pub assume_specification [u64::saturating_div] (a: u64, b: u64) -> (r: u64)
    requires b != 0,
    ensures r == a / b;
'''

UNIT = dict(
    name="c09_quorum", mode="V", properties=["C09"],
    prelude=PRELUDE,
    items=[
        dict(file=F, path="fn does_commit_voting_power_have_quorum", spec="""
    ensures
        // strictly more than two thirds, in exact arithmetic, for every pair of u64 powers
        ret == (3 * (commited as int) > 2 * (total as int)),
"""),
    ],
    assumptions=["u64::saturating_div specification (assume_specification; only needed while the code uses it)",
                 "vstd specifications of u64::saturating_mul / checked_mul / u128 arithmetic"],
)
