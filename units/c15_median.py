U = "crates/astria-core/src/oracles/price_feed/utils.rs"
T = "crates/astria-core/src/oracles/price_feed/types.rs"

PRELUDE = r'''
// `price_list.sort_unstable()` (slice sort through Vec deref, Ord derived on Price) is replaced by this
// specified stand-in (rule R10): the result is a sorted permutation of the input.
pub open spec fn sorted(s: Seq<Price>) -> bool { forall|i: int, j: int| 0 <= i <= j < s.len() ==> s[i].0 <= s[j].0 }
#[verifier::external_body]
pub fn vx_sort_unstable(v: &mut Vec<Price>)
    ensures sorted(final(v)@), final(v)@.to_multiset() == old(v)@.to_multiset(), final(v)@.len() == old(v)@.len(),
{ unimplemented!() }

pub assume_specification<'a, T: Copy> [Option::<&'a T>::copied] (o: Option<&'a T>) -> (r: Option<T>)
    ensures r == (match o { Some(x) => Some(*x), None => None::<T> });

// euclidean division: Verus' `/` and `%` on int are euclidean
pub assume_specification [i128::div_euclid] (a: i128, b: i128) -> (r: i128)
    requires b > 0,
    ensures r == a / b;
pub assume_specification [i128::rem_euclid] (a: i128, b: i128) -> (r: i128)
    requires b > 0,
    ensures r == a % b;

pub open spec fn is_min(s: Seq<Price>, m: int) -> bool { s.len() > 0 && (forall|i: int| 0 <= i < s.len() ==> m <= s[i].0) && (exists|i: int| 0 <= i < s.len() && s[i].0 == m) }
pub open spec fn is_max(s: Seq<Price>, m: int) -> bool { s.len() > 0 && (forall|i: int| 0 <= i < s.len() ==> m >= s[i].0) && (exists|i: int| 0 <= i < s.len() && s[i].0 == m) }

/// permutations have the same elements: every element of one occurs in the other
pub proof fn lemma_perm_contains(a: Seq<Price>, b: Seq<Price>, x: Price)
    requires a.to_multiset() == b.to_multiset(), a.contains(x),
    ensures b.contains(x),
{
    a.to_multiset_ensures();
    b.to_multiset_ensures();
    assert(a.to_multiset().count(x) > 0);
    assert(b.to_multiset().count(x) > 0);
}
'''

SPEC_MEDIAN = """
    ensures
        // never panics (every expect/unwrap/index is an obligation), None exactly for the empty list
        ret is None <==> price_list@.len() == 0,
        // the published price lies between the smallest and the largest reported price
        ret matches Some(m) ==> (forall|lo: int, hi: int| is_min(price_list@, lo) && is_max(price_list@, hi) ==> lo <= m.0 <= hi),
"""

UNIT = dict(
    name="c15_median", mode="V", properties=["C15"],
    prelude=PRELUDE,
    items=[
        dict(file=T, path="mod v2/struct Price", keep_derives={"Debug", "Clone", "Copy"}),
        dict(file=T, path="mod v2/impl Price/fn new", spec="    ensures ret.0 == value,\n", no_canary=True),
        dict(file=T, path="mod v2/impl Price/fn get", spec="    ensures ret == self.0,\n", no_canary=True),
        dict(file=T, path="mod v2/impl Price/fn checked_add", rewrites=["R12"], spec="""
    ensures ret == (if i128::MIN <= self.0 + rhs.0 <= i128::MAX { Some(Price((self.0 + rhs.0) as i128)) } else { None::<Price> }),
""", no_canary=True),
        dict(file=T, path="mod v2/impl Price/fn checked_div", rewrites=["R12"], spec="""
    ensures
        (rhs == 0 || (self.0 == i128::MIN && rhs == -1)) ==> ret is None,
        rhs == 2 ==> (ret matches Some(p) && 2 * p.0 <= self.0 + 1 && self.0 - 1 <= 2 * p.0 && (self.0 >= 0 ==> 2 * p.0 <= self.0) && (self.0 < 0 ==> 2 * p.0 >= self.0)),
""", no_canary=True),
        dict(file=U, path="fn median",
             rewrites=[dict(rule="subst", id="R10.sort_unstable", old="price_list.sort_unstable();", new="vx_sort_unstable(&mut price_list);")],
             ghost=[("before", "vx_sort_unstable(&mut price_list);", "let ghost orig = price_list@;"),
                    ("after", "vx_sort_unstable(&mut price_list);", """
    proof {
        // min and max of the original list are elements of the sorted permutation and vice versa
        assert forall|lo: int, hi: int| is_min(orig, lo) && is_max(orig, hi) implies
            (forall|i: int| 0 <= i < price_list@.len() ==> lo <= #[trigger] price_list@[i].0 <= hi) by {
            assert forall|i: int| 0 <= i < price_list@.len() implies lo <= #[trigger] price_list@[i].0 <= hi by {
                let x = price_list@[i];
                assert(price_list@.contains(x));
                lemma_perm_contains(price_list@, orig, x);
                let j = choose|j: int| 0 <= j < orig.len() && orig[j] == x;
            }
        }
    }
""")],
             spec=SPEC_MEDIAN),
    ],
    assumptions=[
        "R10: slice::sort_unstable replaced by a specified stand-in (sorted permutation); the derived Ord on Price(i128) is the order of the inner integer",
        "assume_specification for Option<&T>::copied, i128::div_euclid, i128::rem_euclid (positive divisor); vstd specifications of i128::checked_div/checked_add, Vec::get/len, Option::expect",
    ],
)
