ACC = "crates/astria-sequencer/src/accounts/state_ext.rs"
IBS = "crates/astria-sequencer/src/ibc/state_ext.rs"
ICS = "crates/astria-sequencer/src/ibc/ics20_transfer.rs"

PRELUDE = r'''
vx_insufficient_funds_marker!();
pub mod denom { pub use crate::asset::TracePrefixed; }
// ---- packet and parsing stand-ins: the packet carries its already-parsed content (serde_json / bech32 / denom parsing trusted) ----
#[derive(Clone, Copy, Debug)] pub struct Amount(pub Option<u128>);
impl Amount { pub fn parse(&self) -> Result<u128> { self.0.ok_or(eyre::Report::new()) } }
#[derive(Clone, Copy, Debug)]
pub struct FungibleTokenPacketData { pub amount: Amount, pub receiver: Maybe<Address>, pub sender: Maybe<Address>, pub denom: Maybe<TracePrefixed>, pub memo: Memo }
/// a string field that either parses to a value or does not
#[derive(Clone, Copy, Debug)] pub struct Maybe<T>(pub Option<T>);
impl<T> std::fmt::Display for Maybe<T> { fn fmt(&self, _f: &mut std::fmt::Formatter<'_>) -> std::fmt::Result { Ok(()) } }
#[derive(Clone, Copy, Debug)] pub struct Memo(pub u8);
#[derive(Clone, Copy, Debug)]
pub struct Packet { pub data: Option<FungibleTokenPacketData>, pub port_on_a: PortId, pub chan_on_a: ChannelId, pub port_on_b: PortId, pub chan_on_b: ChannelId }
pub mod serde_json { pub fn from_slice(d: &Option<crate::FungibleTokenPacketData>) -> Result<crate::FungibleTokenPacketData, crate::eyre::Report> { d.ok_or(crate::eyre::Report::new()) } }
pub fn parse_address_on_sequencer<S: StateRead>(_state: &S, input: &Maybe<Address>) -> Result<Address> { input.0.ok_or(eyre::Report::new()) }
pub fn parse_asset<S: StateRead>(_state: S, input: &Maybe<TracePrefixed>) -> Result<TracePrefixed> { input.0.ok_or(eyre::Report::new()) }
/// emit_bridge_lock_deposit / emit_deposit (memo parsing, deposit construction) are outside this unit:
/// arbitrary outcome; on success exactly one deposit for (bridge address, amount, asset) is cached and its event recorded
pub fn emit_bridge_lock_deposit<S: StateWrite>(mut state: S, bridge_address: Address, asset: &TracePrefixed, amount: u128, _memo: &Memo) -> Result<()> {
    if kani::any() { return Err(eyre::Report::new()); }
    let d = Deposit { bridge_address, rollup_id: RollupId(0), amount, asset: Denom::TracePrefixed(*asset), destination_chain_address: Text(1),
                      source_transaction_id: TransactionId(0), source_action_index: 0 };
    let ev = create_deposit_event(&d);
    state.cache_deposit_event(d);
    state.record(ev);
    Ok(())
}
'''

PRELUDE += r'''
// ---- packet handler plumbing --------------------------------------------------------------------------
/// cnidarium::StateDelta over the single symbolic store: writes go to the store; dropping the delta without
/// `apply` restores the store to the snapshot taken at `new` (nothing is published); `apply` publishes and
/// hands back the events recorded inside the delta (they are NOT recorded in the parent by cnidarium).
pub struct StateDelta<S> { parent: Option<S>, snap_slots: [Option<Slot>; CAP], snap_n: usize, snap_wu: bool, snap_dep: [Option<Deposit>; DCAP], snap_nd: usize, snap_ev: u32, snap_dev: u32 }
impl<S: StateRead> StateDelta<S> {
    pub fn new(parent: S) -> Self {
        let st = store();
        StateDelta { parent: Some(parent), snap_slots: st.slots, snap_n: st.n, snap_wu: st.wrote_undeclared, snap_dep: st.deposits.clone(), snap_nd: st.n_deposits, snap_ev: st.events, snap_dev: st.deposit_events }
    }
    pub fn apply(mut self) -> (S, Vec<DeltaEvent>) {
        let st = store();
        let n = st.events - self.snap_ev;
        st.events = self.snap_ev;              // events travel in the return value
        unsafe { DELTAS_APPLIED += 1; }
        let mut evs = Vec::new();
        let mut i = 0; while i < n { evs.push(DeltaEvent); i += 1; }
        (self.parent.take().unwrap(), evs)
    }
}
impl<S> Drop for StateDelta<S> {
    fn drop(&mut self) {
        if self.parent.is_some() {
            let st = store();
            st.slots = self.snap_slots; st.n = self.snap_n; st.wrote_undeclared = self.snap_wu; st.deposits = self.snap_dep.clone(); st.n_deposits = self.snap_nd;
            st.events = self.snap_ev; st.deposit_events = self.snap_dev;
        }
    }
}
impl<S: StateRead> StateRead for StateDelta<S> {}
impl<S: StateRead> StateWrite for StateDelta<S> {}
pub struct DeltaEvent;
pub static mut DELTAS_APPLIED: u32 = 0;
pub static mut ACK_WRITTEN: Option<bool> = None;     // Some(true) = success ack, Some(false) = error ack
pub enum TokenTransferAcknowledgement { Success, Error(String) }
impl TokenTransferAcknowledgement { pub fn success() -> Self { TokenTransferAcknowledgement::Success } }
pub struct AckBytes(pub bool);
impl From<TokenTransferAcknowledgement> for Vec<u8> { fn from(a: TokenTransferAcknowledgement) -> Vec<u8> { match a { TokenTransferAcknowledgement::Success => vec![1], TokenTransferAcknowledgement::Error(_) => vec![0] } } }
pub mod penumbra_ibc { pub mod component { pub mod packet {
    pub trait WriteAcknowledgement: crate::StateWrite {
        fn write_acknowledgement(&mut self, _p: &crate::Packet, ack: &Vec<u8>) -> crate::anyhow::Result<()> { unsafe { crate::ACK_WRITTEN = Some(ack[0] == 1); } Ok(()) }
    }
    impl<T: crate::StateWrite + ?Sized> WriteAcknowledgement for T {}
} } }
pub mod anyhow {
    #[derive(Debug)] pub struct Error;
    impl Error { pub fn context<C>(self, _c: C) -> Self { self } }
    pub type Result<T> = core::result::Result<T, Error>;
}
pub trait AnyhowContext<T> { fn context<C>(self, c: C) -> anyhow::Result<T>; }
impl<T> AnyhowContext<T> for anyhow::Result<T> { fn context<C>(self, _c: C) -> anyhow::Result<T> { self } }
pub fn eyre_to_anyhow(_e: eyre::Report) -> anyhow::Error { anyhow::Error }
impl std::fmt::Display for eyre::Report { fn fmt(&self, _f: &mut std::fmt::Formatter<'_>) -> std::fmt::Result { Ok(()) } }
impl AsRef<dyn std::error::Error> for eyre::Report { fn as_ref(&self) -> &(dyn std::error::Error + 'static) { &VX_ERR } }
#[derive(Debug)] pub struct VxErr; impl std::fmt::Display for VxErr { fn fmt(&self, _f: &mut std::fmt::Formatter<'_>) -> std::fmt::Result { Ok(()) } } impl std::error::Error for VxErr {}
pub static VX_ERR: VxErr = VxErr;
macro_rules! vx_tracing_warn { ($($t:tt)*) => {{}} }
pub mod tracing { pub(crate) use vx_tracing_warn as warn; }
pub struct IbcAcknowledgementFailureChange; impl IbcAcknowledgementFailureChange { pub const NAME: u8 = 15; }
pub struct MsgRecvPacket { pub packet: Packet }
pub struct Ics20Transfer;
pub trait AppHandlerExecute { fn recv_packet_execute<S: StateWrite>(state: S, msg: &MsgRecvPacket) -> anyhow::Result<()>; }
'''

HARNESS = r'''
    use crate::ibc_real::StateWriteExt as _;

    // ---- ibc::decrease_ibc_channel_balance: escrow is never over-released --------------------------------------
    #[kani::proof]
    #[kani::unwind(10)]
    fn decrease_ibc_channel_balance_contract() {
        reset_store();
        let c = ChannelId(kani::any()); let x = TracePrefixed::any(); let n: u128 = kani::any();
        let k = Key::IbcChannelBalance(c.0, x.to_ibc_prefixed());
        store().declare(k);
        let mut st = State;
        let r = st.decrease_ibc_channel_balance(&c, &x, n);
        let e0 = store().peek_init(k).unwrap_or(0);
        match r {
            Ok(()) => { assert!(e0 >= n && store().peek(k) == Some(e0 - n)); assert!(store().unchanged_except(&[k])); }
            Err(_) => { assert!(e0 < n); assert!(store().nothing_written()); }      // never wraps or saturates; insufficient escrow is an error
        }
    }

    // ---- refund to a sequencer address: escrow debited exactly iff sequencer was the source zone -------------------
    #[kani::proof]
    #[kani::unwind(10)]
    fn refund_to_sequencer_address_contract() {
        reset_store();
        let recipient = Address::any(); let asset = TracePrefixed::any(); let amount: u128 = kani::any();
        let port = PortId(kani::any()); let chan = ChannelId(kani::any());
        let x = asset.to_ibc_prefixed();
        let ke = Key::IbcChannelBalance(chan.0, x); let kb = Key::Balance(recipient.bytes, x);
        store().declare(ke); store().declare(kb);
        let r = refund_tokens_to_sequencer_address(State, &recipient, &asset, amount, &port, &chan);
        let e0 = store().peek_init(ke).unwrap_or(0); let b0 = store().peek_init(kb).unwrap_or(0);
        // the asset left over this channel as a sequencer-origin (escrowed) asset iff it is NOT prefixed with the source port/channel
        let escrowed = !(asset.seg[0] == Some((port.0, chan.0)));
        if r.is_ok() {
            assert!(b0.checked_add(amount) == store().peek(kb));                       // recipient credited exactly
            if escrowed { assert!(e0 >= amount && store().peek(ke) == Some(e0 - amount)); } // released from escrow exactly, never more than escrowed
            else { assert!(store().peek(ke) == store().peek_init(ke)); }                // foreign asset: minted, escrow untouched
            assert!(store().unchanged_except(&[ke, kb]));
        } else {
            assert!(store().peek(kb) == store().peek_init(kb));                          // no credit without the matching escrow release
        }
    }

    fn setup_receive() -> (Packet, FungibleTokenPacketData) {
        reset_store();
        let data = FungibleTokenPacketData { amount: Amount(kani::any()), receiver: Maybe(if kani::any() { Some(Address::any()) } else { None }), sender: Maybe(None),
                                             denom: Maybe(if kani::any() { Some(TracePrefixed::any()) } else { None }), memo: Memo(kani::any()) };
        let packet = Packet { data: if kani::any() { Some(data) } else { None }, port_on_a: PortId(kani::any()), chan_on_a: ChannelId(kani::any()),
                              port_on_b: PortId(kani::any()), chan_on_b: ChannelId(kani::any()) };
        (packet, data)
    }

    // ---- receive_tokens: exact accounting on success -------------------------------------------------------------
    #[kani::proof]
    #[kani::unwind(10)]
    #[kani::stub(alloc::fmt::format, crate::vx_stub_format)]
    fn receive_tokens_success_accounting() {
        let (packet, data) = setup_receive();
        kani::assume(packet.data.is_some() && data.receiver.0.is_some() && data.denom.0.is_some() && data.amount.0.is_some());
        let recipient = data.receiver.0.unwrap(); let mut asset = data.denom.0.unwrap(); let amount = data.amount.0.unwrap();
        let is_source = asset.seg[0] == Some((packet.port_on_a.0, packet.chan_on_a.0));
        if is_source { asset.pop_leading_port_and_channel(); } else { kani::assume(asset.seg[1].is_none()); asset = asset.vx_with_prefix(&packet.port_on_b, &packet.chan_on_b).unwrap(); }
        let x = asset.to_ibc_prefixed();
        let ke = Key::IbcChannelBalance(packet.chan_on_b.0, x); let kb = Key::Balance(recipient.bytes, x);
        store().declare(ke); store().declare(kb);
        store().declare(Key::Upgrade(Ics20TransferActionChange::NAME)); store().declare(Key::FeeAssetAllowed(x));
        store().declare(Key::BridgeRollupId(recipient.bytes)); store().declare(Key::BridgeDisabled(recipient.bytes)); store().declare(Key::IbcAsset(x));
        let r = receive_tokens(State, &packet);
        let e0 = store().peek_init(ke).unwrap_or(0); let b0 = store().peek_init(kb).unwrap_or(0);
        if r.is_ok() {
            assert!(b0.checked_add(amount) == store().peek(kb));
            if is_source { assert!(e0 >= amount && store().peek(ke) == Some(e0 - amount)); }   // returning sequencer-origin asset: released from escrow, never more than escrowed
            else { assert!(store().peek(ke) == store().peek_init(ke)); }
            assert!(store().unchanged_except(&[ke, kb, Key::IbcAsset(x)]));
            // a deposit is registered iff the recipient is a bridge account, and then for exactly the credited amount
            let is_bridge = store().peek_init(Key::BridgeRollupId(recipient.bytes)).is_some();
            assert!(store().n_deposits == if is_bridge { 1 } else { 0 });
            if is_bridge { let d = store().deposits[0].clone().unwrap(); assert!(d.amount == amount && d.bridge_address == recipient); }
        }
    }

    // ---- recv_packet_execute: an incoming packet that cannot be fully applied is acknowledged with an error and changes nothing ----
    #[kani::proof]
    #[kani::unwind(10)]
    #[kani::stub(alloc::fmt::format, crate::vx_stub_format)]
    fn recv_packet_failure_has_no_side_effects() {
        let (packet, data) = setup_receive();
        unsafe { DELTAS_APPLIED = 0; ACK_WRITTEN = None; }
        store().declare(Key::Upgrade(IbcAcknowledgementFailureChange::NAME));
        // declare every key the call may touch so that "nothing written" is meaningful
        if let (Some(_), Some(recipient), Some(mut asset)) = (packet.data, data.receiver.0, data.denom.0) {
            let is_source = asset.seg[0] == Some((packet.port_on_a.0, packet.chan_on_a.0));
            if is_source { asset.pop_leading_port_and_channel(); } else { kani::assume(asset.seg[1].is_none()); asset = asset.vx_with_prefix(&packet.port_on_b, &packet.chan_on_b).unwrap(); }
            let x = asset.to_ibc_prefixed();
            store().declare(Key::IbcChannelBalance(packet.chan_on_b.0, x)); store().declare(Key::Balance(recipient.bytes, x));
            store().declare(Key::Upgrade(Ics20TransferActionChange::NAME)); store().declare(Key::FeeAssetAllowed(x));
            store().declare(Key::BridgeRollupId(recipient.bytes)); store().declare(Key::BridgeDisabled(recipient.bytes)); store().declare(Key::IbcAsset(x));
        }
        let r = <Ics20Transfer as AppHandlerExecute>::recv_packet_execute(State, &MsgRecvPacket { packet });
        if r.is_ok() {
            match unsafe { ACK_WRITTEN } {
                Some(false) => {
                    // error acknowledgement: no balance, escrow, asset registration, deposit or event survives
                    assert!(store().nothing_written());
                    assert!(store().n_deposits == 0 && store().deposit_events == 0 && store().events == 0);
                    assert!(unsafe { DELTAS_APPLIED } == 0);
                }
                Some(true) => {
                    assert!(unsafe { DELTAS_APPLIED } == 1);
                    // the events recorded by the transfer are re-recorded in the outer state (a bridge deposit is not lost)
                    assert!(store().events == store().deposit_events && store().deposit_events as usize == store().n_deposits);
                }
                None => assert!(false),    // every handled packet is acknowledged
            }
        }
    }

    #[kani::proof]
    #[kani::unwind(10)]
    #[kani::stub(alloc::fmt::format, crate::vx_stub_format)]
    fn canary_receive_tokens_ok_reachable() {
        let (packet, _data) = setup_receive();
        assert!(receive_tokens(State, &packet).is_err());   // must FAIL
    }
'''

UNIT = dict(
    name="c18_ics20", mode="K", properties=["C18", "C04"],
    shim_files=["shims/common.rs", "shims/seq.rs"],
    prelude=PRELUDE,
    use="use crate::accounts::*;\nuse crate::ibc_real::StateWriteExt as _;\nuse crate::AnyhowContext as _;",
    items=[
        dict(file=ACC, path="struct InsufficientFunds", module="accounts"),
        dict(file=ACC, path="trait StateWriteExt/fn increase_balance", module="accounts"),
        dict(file=ACC, path="trait StateWriteExt/fn decrease_balance", module="accounts"),
        dict(file=ACC, path="impl<T: StateWrite> StateWriteExt for T", module="accounts"),
        dict(file=IBS, path="trait StateWriteExt/fn decrease_ibc_channel_balance", module="ibc_real"),
        dict(file=IBS, path="impl<T: StateWrite> StateWriteExt for T", module="ibc_real"),
        dict(file=ICS, path="fn is_transfer_source_zone"),
        dict(file=ICS, path="fn is_refund_source_zone"),
        dict(file=ICS, path="fn is_post_blackburn"),
        dict(file=ICS, path="fn refund_tokens_to_sequencer_address"),
        dict(file=ICS, path="impl AppHandlerExecute for Ics20Transfer/fn recv_packet_execute"),
        dict(file=ICS, path="fn receive_tokens",
             rewrites=[dict(rule="regex", id="R7.denom_prefix_format",
                            old=r"asset = format!\((?:.|\n)*?\)\s*\.parse\(\)\s*\.expect\((?:.|\n)*?\);",
                            new="asset = asset.vx_with_prefix(&packet.port_on_b, &packet.chan_on_b).expect(\"dest port and channel are valid prefix segments\");", count=1),
                       dict(rule="regex", id="R7.from_slice_type", old=r"let packet_data: FungibleTokenPacketData = serde_json::from_slice\(&packet\.data\)", new="let packet_data: FungibleTokenPacketData = serde_json::from_slice(&packet.data)", count=1)]),
    ],
    harness=HARNESS,
    harnesses=[
        dict(name="decrease_ibc_channel_balance_contract", obligation="ibc::decrease_ibc_channel_balance::ensures#exact-checked-sub+Err-iff-insufficient+frame"),
        dict(name="refund_to_sequencer_address_contract", obligation="ics20::refund_tokens_to_sequencer_address::ensures#escrow-released-exactly-iff-source-zone+credit-exact+frame"),
        dict(name="receive_tokens_success_accounting", obligation="ics20::receive_tokens::ensures#Ok=>escrow-and-credit-exact+deposit-iff-bridge+frame"),
        dict(name="canary_receive_tokens_ok_reachable", expect="fail"),
        dict(name="recv_packet_failure_has_no_side_effects", obligation="Ics20Transfer::recv_packet_execute::ensures#error-ack=>no-balance-change-no-deposit-no-event;success=>delta-applied-once+events-re-recorded",
             label="an incoming packet that cannot be fully applied is acknowledged with an error and changes no balance, registers no deposit and emits no deposit event"),
    ],
    assumptions=["A-store typed accessors over the symbolic store; packet data is carried pre-parsed (serde_json, bech32 and denom parsing trusted); emit_bridge_lock_deposit is an arbitrary-outcome stand-in that caches exactly one deposit on success",
                 "R7: the `format!(\"{port}/{channel}/{asset}\").parse().expect(..)` expression is replaced by TracePrefixed::vx_with_prefix (same meaning on the structural denom model; denoms have at most 2 trace segments)",
                 "cnidarium StateDelta is a snapshot/restore stand-in over the single symbolic store (apply publishes and returns the events recorded inside the delta; drop restores)", "refund_tokens' rollup branch and the timeout/acknowledge handlers are not under contract"],
)
