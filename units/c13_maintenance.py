F = "crates/astria-sequencer/src/mempool/mod.rs"

PRELUDE = r'''
pub const ADDRESS_LENGTH: usize = 2;
pub const CAPL: usize = 4;
pub const ACCOUNT: [u8; ADDRESS_LENGTH] = [7, 7];      // the one account of this unit's mempool
// ---- fixed-capacity list (plain array + length; see tool notes: no Option slots) used for every collection ----------------
#[derive(Clone, Copy, Debug)]
pub struct Vec<T: Copy + Default> { pub items: [T; CAPL], pub n: usize }
impl<T: Copy + Default> Vec<T> {
    pub fn new() -> Self { Vec { items: [T::default(); CAPL], n: 0 } }
    pub fn push(&mut self, v: T) { assert!(self.n < CAPL, "list capacity"); self.items[self.n] = v; self.n += 1; }
    pub fn len(&self) -> usize { self.n } pub fn is_empty(&self) -> bool { self.n == 0 }
    pub fn iter(&self) -> std::slice::Iter<'_, T> { self.items[..self.n].iter() }
    pub fn extend<I: IntoIterator<Item = T>>(&mut self, it: I) { for v in it { self.push(v); } }
    pub fn at(&self, i: usize) -> T { assert!(i < self.n); self.items[i] }
}
pub struct VecIntoIter<T: Copy + Default> { v: Vec<T>, i: usize }
impl<T: Copy + Default> Iterator for VecIntoIter<T> { type Item = T; fn next(&mut self) -> Option<T> { if self.i < self.v.n { let r = self.v.items[self.i]; self.i += 1; Some(r) } else { None } } }
impl<T: Copy + Default> IntoIterator for Vec<T> { type Item = T; type IntoIter = VecIntoIter<T>; fn into_iter(self) -> VecIntoIter<T> { VecIntoIter { v: self, i: 0 } } }
impl<'a, T: Copy + Default> IntoIterator for &'a Vec<T> { type Item = &'a T; type IntoIter = std::slice::Iter<'a, T>; fn into_iter(self) -> std::slice::Iter<'a, T> { self.iter() } }
#[derive(Clone, Copy, Debug)]
pub struct HashSet<T: Copy + Default> { pub v: Vec<T> }
impl<T: Copy + Default + PartialEq> HashSet<T> {
    pub fn new() -> Self { HashSet { v: Vec::new() } }
    pub fn contains(&self, k: &T) -> bool { let mut i = 0; while i < self.v.n { if self.v.items[i] == *k { return true; } i += 1; } false }
    pub fn insert(&mut self, k: T) -> bool { if self.contains(&k) { false } else { self.v.push(k); true } }
    pub fn remove(&mut self, k: &T) -> bool { let mut i = 0; let mut hit = false; let mut out = Vec::new(); while i < self.v.n { if self.v.items[i] == *k { hit = true; } else { out.push(self.v.items[i]); } i += 1; } self.v = out; hit }
    pub fn len(&self) -> usize { self.v.n }
}
impl<T: Copy + Default + PartialEq> FromIterator<T> for HashSet<T> { fn from_iter<I: IntoIterator<Item = T>>(it: I) -> Self { let mut s = HashSet::new(); for v in it { s.insert(v); } s } }
impl<'a, T: Copy + Default> IntoIterator for &'a HashSet<T> { type Item = &'a T; type IntoIter = std::slice::Iter<'a, T>; fn into_iter(self) -> std::slice::Iter<'a, T> { self.v.iter() } }
#[derive(Clone, Copy, Debug, Default)] pub struct HashMap<K, V> { pub bal: u32, pub _m: std::marker::PhantomData<(K, V)> }   // single-asset balances / opaque result map
#[derive(Clone, Copy, Debug, Default)] pub struct Arc<T>(pub T);
#[derive(Clone, Copy, Debug, Default)] pub struct ExecTxResult;
#[derive(Clone, Copy, Debug, Default)] pub struct IbcPrefixed;
#[derive(Clone, Copy, Debug, Default, PartialEq, Eq)] pub struct TransactionId(pub u8);
impl std::fmt::Display for TransactionId { fn fmt(&self, _f: &mut std::fmt::Formatter<'_>) -> std::fmt::Result { Ok(()) } }
#[derive(Clone, Copy, Debug, Default, PartialEq, Eq)] pub enum RemovalReason { #[default] NonceStale, Expired, InternalError, LowerNonceInvalidated }
#[derive(Clone, Copy, Debug, Default, PartialEq, Eq)] pub enum InsertionError { #[default] NonceGap, NonceTooLow, NonceTaken, AlreadyPresent, AccountBalanceTooLow, AccountSizeLimit }
impl std::fmt::Display for InsertionError { fn fmt(&self, _f: &mut std::fmt::Formatter<'_>) -> std::fmt::Result { Ok(()) } }
#[derive(Clone, Copy, Debug, Default, PartialEq, Eq)] pub struct Ttx { pub id: TransactionId, pub nonce: u32, pub cost: u16 }
impl Ttx { pub fn id(&self) -> &TransactionId { &self.id } }
pub mod telemetry { pub mod display { pub fn base64<T>(_t: T) -> u8 { 0 } } }
pub mod accounts { pub trait StateReadExt { fn get_account_nonce(&self, a: &[u8; crate::ADDRESS_LENGTH]) -> crate::eyre::Result<u32>; fn vx_balance(&self) -> u32; } }
pub struct ChainState { pub nonce: u32, pub balance: u32, pub fail: bool }
impl accounts::StateReadExt for ChainState { fn get_account_nonce(&self, _a: &[u8; ADDRESS_LENGTH]) -> eyre::Result<u32> { if self.fail { Err(eyre::Report::new()) } else { Ok(self.nonce) } } fn vx_balance(&self) -> u32 { self.balance } }
pub fn get_account_balances<S: accounts::StateReadExt>(state: &S, _a: &[u8; ADDRESS_LENGTH]) -> eyre::Result<HashMap<IbcPrefixed, u128>> { Ok(HashMap { bal: state.vx_balance(), _m: std::marker::PhantomData }) }
impl std::fmt::Display for eyre::Report { fn fmt(&self, _f: &mut std::fmt::Formatter<'_>) -> std::fmt::Result { Ok(()) } }

// ---- container stand-ins: one account, single-asset costs; their meaning is the contract of the real containers ----------------
/// ready transactions of ACCOUNT: consecutive nonces, in order
#[derive(Clone, Copy, Debug)] pub struct PendingTransactions { pub txs: Vec<Ttx> }
/// parked transactions of ACCOUNT: increasing nonces, gaps allowed
#[derive(Clone, Copy, Debug)] pub struct ParkedTransactions<const N: usize> { pub txs: Vec<Ttx> }
fn sum(v: &Vec<Ttx>) -> u32 { let mut s: u32 = 0; let mut i = 0; while i < v.n { s = s.saturating_add(v.items[i].cost as u32); i += 1; } s }
fn clean_stale(txs: &mut Vec<Ttx>, current_nonce: u32) -> Vec<(TransactionId, RemovalReason)> {
    let mut keep = Vec::new(); let mut gone = Vec::new(); let mut i = 0;
    while i < txs.n { let t = txs.items[i]; if t.nonce < current_nonce { gone.push((t.id, RemovalReason::NonceStale)); } else { keep.push(t); } i += 1; }
    *txs = keep; gone
}
static ONE: [[u8; ADDRESS_LENGTH]; 1] = [ACCOUNT];
impl PendingTransactions {
    pub fn addresses(&self) -> std::slice::Iter<'static, [u8; ADDRESS_LENGTH]> { ONE[..(if self.txs.n > 0 { 1 } else { 0 })].iter() }
    pub fn clean_account_stale_expired(&mut self, _a: &[u8; ADDRESS_LENGTH], current_nonce: u32, _r: &HashMap<TransactionId, Arc<ExecTxResult>>, _h: u64) -> Vec<(TransactionId, RemovalReason)> { clean_stale(&mut self.txs, current_nonce) }
    pub fn recost_transactions<S>(&mut self, _a: &[u8; ADDRESS_LENGTH], _s: &S) {}
    /// removes and returns the transactions (from the first unaffordable one on) whose cumulative cost exceeds the balance
    pub fn find_demotables(&mut self, _a: &[u8; ADDRESS_LENGTH], b: &HashMap<IbcPrefixed, u128>) -> Vec<Ttx> {
        let mut keep = Vec::new(); let mut out = Vec::new(); let mut acc: u32 = 0; let mut cut = false; let mut i = 0;
        while i < self.txs.n { let t = self.txs.items[i]; if !cut { match acc.checked_add(t.cost as u32) { Some(s) if s <= b.bal => { acc = s; keep.push(t); } _ => { cut = true; out.push(t); } } } else { out.push(t); } i += 1; }
        self.txs = keep; out
    }
    pub fn pending_nonce(&self, _a: &[u8; ADDRESS_LENGTH]) -> Option<u32> { if self.txs.n == 0 { None } else { Some(self.txs.items[self.txs.n - 1].nonce.saturating_add(1)) } }
    pub fn subtract_contained_costs(&self, _a: &[u8; ADDRESS_LENGTH], b: HashMap<IbcPrefixed, u128>) -> HashMap<IbcPrefixed, u128> { HashMap { bal: b.bal.saturating_sub(sum(&self.txs)), _m: std::marker::PhantomData } }
    /// contract of TransactionsForAccount::add for the ready container (proved on the real text in unit c13_mempool)
    pub fn add(&mut self, t: Ttx, current_nonce: u32, b: &HashMap<IbcPrefixed, u128>) -> Result<(), InsertionError> {
        if t.nonce < current_nonce { return Err(InsertionError::NonceTooLow); }
        let mut i = 0; while i < self.txs.n { if self.txs.items[i].nonce == t.nonce { return Err(if self.txs.items[i].id == t.id { InsertionError::AlreadyPresent } else { InsertionError::NonceTaken }); } i += 1; }
        let expected = if self.txs.n == 0 { current_nonce } else { self.txs.items[self.txs.n - 1].nonce.saturating_add(1) };
        if t.nonce != expected { return Err(InsertionError::NonceGap); }
        match sum(&self.txs).checked_add(t.cost as u32) { Some(s) if s <= b.bal => {} _ => return Err(InsertionError::AccountBalanceTooLow) }
        self.txs.push(t); Ok(())
    }
}
impl<const N: usize> ParkedTransactions<N> {
    pub fn addresses(&self) -> std::slice::Iter<'static, [u8; ADDRESS_LENGTH]> { ONE[..(if self.txs.n > 0 { 1 } else { 0 })].iter() }
    pub fn clean_account_stale_expired(&mut self, _a: &[u8; ADDRESS_LENGTH], current_nonce: u32, _r: &HashMap<TransactionId, Arc<ExecTxResult>>, _h: u64) -> Vec<(TransactionId, RemovalReason)> { clean_stale(&mut self.txs, current_nonce) }
    pub fn recost_transactions<S>(&mut self, _a: &[u8; ADDRESS_LENGTH], _s: &S) {}
    /// removes and returns the front transactions with contiguous nonces starting at target_nonce whose cumulative cost fits `available`
    pub fn find_promotables(&mut self, _a: &[u8; ADDRESS_LENGTH], target_nonce: u32, available: &HashMap<IbcPrefixed, u128>) -> Vec<Ttx> {
        let mut out = Vec::new(); let mut keep = Vec::new(); let mut next = target_nonce; let mut acc: u32 = 0; let mut stop = false; let mut i = 0;
        while i < self.txs.n { let t = self.txs.items[i];
            if !stop && t.nonce == next && acc.checked_add(t.cost as u32).map_or(false, |s| s <= available.bal) { acc += t.cost as u32; next = next.saturating_add(1); out.push(t); } else { stop = true; keep.push(t); }
            i += 1; }
        self.txs = keep; out
    }
    pub fn add(&mut self, t: Ttx, current_nonce: u32, _b: &HashMap<IbcPrefixed, u128>) -> Result<(), InsertionError> {
        if self.txs.n >= N { return Err(InsertionError::AccountSizeLimit); }
        if t.nonce < current_nonce { return Err(InsertionError::NonceTooLow); }
        let mut i = 0; while i < self.txs.n { if self.txs.items[i].nonce == t.nonce { return Err(InsertionError::NonceTaken); } i += 1; }
        // keep increasing nonce order
        let mut out = Vec::new(); let mut placed = false; let mut i = 0;
        while i < self.txs.n { let x = self.txs.items[i]; if !placed && t.nonce < x.nonce { out.push(t); placed = true; } out.push(x); i += 1; }
        if !placed { out.push(t); }
        self.txs = out; Ok(())
    }
}
pub const MAX_PARKED_TXS_PER_ACCOUNT: usize = 3;
#[derive(Clone, Copy, Debug)] pub struct RemovalCache { pub cache: Vec<(TransactionId, RemovalReason)> }
impl RemovalCache { pub fn add(&mut self, id: TransactionId, r: RemovalReason) { let mut i = 0; while i < self.cache.n { if self.cache.items[i].0 == id { return; } i += 1; } self.cache.push((id, r)); } }
#[derive(Clone, Copy, Debug)] pub struct RecentExecutionResults;
impl RecentExecutionResults { pub fn add(&mut self, _r: HashMap<TransactionId, Arc<ExecTxResult>>, _h: u64) {} pub fn len(&self) -> usize { 0 } }
pub static mut LOGIC_ERRORS: u32 = 0;
pub struct Metrics;
impl Metrics { pub fn increment_internal_logic_error(&self) { unsafe { LOGIC_ERRORS += 1; } } pub fn set_results_in_recently_executed_cache(&self, _n: usize) {} }
pub static METRICS: Metrics = Metrics;
'''

HARNESS = r'''
    fn any_ttx(id: u8) -> Ttx { Ttx { id: TransactionId(id), nonce: kani::any(), cost: kani::any() } }
    /// a mempool holding transactions of ACCOUNT only, in a state satisfying its invariant:
    /// pending = consecutive nonces; parked = increasing nonces above pending; ids distinct; contained_txs = ids of both
    fn any_mempool(np: usize, nk: usize) -> MempoolInner {
        let mut pending = Vec::new(); let mut parked = Vec::new(); let mut contained = HashSet::new();
        let base: u32 = kani::any(); kani::assume(base < 8);
        let mut i = 0; while i < np { let mut t = any_ttx(i as u8); t.nonce = base + i as u32; pending.push(t); contained.insert(t.id); i += 1; }
        let mut last = if np == 0 { base } else { base + np as u32 - 1 };
        let mut j = 0; while j < nk { let mut t = any_ttx(10 + j as u8); kani::assume(t.nonce > last && t.nonce < 16); last = t.nonce; parked.push(t); contained.insert(t.id); j += 1; }
        unsafe { LOGIC_ERRORS = 0; }
        MempoolInner { pending: PendingTransactions { txs: pending }, parked: ParkedTransactions { txs: parked }, comet_bft_removal_cache: RemovalCache { cache: Vec::new() },
                       recent_execution_results: RecentExecutionResults, contained_txs: contained, metrics: &METRICS }
    }
    fn in_list(v: &Vec<Ttx>, id: TransactionId) -> bool { let mut i = 0; while i < v.n { if v.items[i].id == id { return true; } i += 1; } false }

    // ---- run_maintenance: every transaction stays in exactly one place (ready, parked, or reported as removed with a reason) ----
    fn maintenance_contract(np: usize, nk: usize) {
        let mut m = any_mempool(np, nk);
        let before = (m.pending, m.parked);
        let st = ChainState { nonce: kani::any(), balance: kani::any(), fail: false };
        kani::assume(st.nonce < 16 && (m.pending.txs.n == 0 || m.pending.txs.items[0].nonce <= st.nonce));
        m.run_maintenance(&st, kani::any(), HashMap::default(), kani::any());
        let mut k = 0;
        while k < 2 {
            let olds = if k == 0 { before.0.txs } else { before.1.txs };
            let mut i = 0;
            while i < olds.n {
                let id = olds.items[i].id;
                let places = (in_list(&m.pending.txs, id) as u8) + (in_list(&m.parked.txs, id) as u8);
                let mut reported = false; let mut r = 0; while r < m.comet_bft_removal_cache.cache.n { if m.comet_bft_removal_cache.cache.items[r].0 == id { reported = true; } r += 1; }
                assert!(places <= 1);                                         // never duplicated
                assert!(places == 1 || reported);                             // never silently lost
                assert!(!(places == 1 && reported));                          // not both kept and reported removed
                assert!(m.contained_txs.contains(&id) == (places == 1));      // membership index agrees
                if olds.items[i].nonce < st.nonce { assert!(places == 0 && reported); }   // no transaction with an already-used nonce remains
                i += 1;
            }
            k += 1;
        }
        // the ready queue is again consecutive from the account nonce and jointly affordable; the parked limit holds
        let mut i = 0; let mut acc: u32 = 0;
        while i < m.pending.txs.n { let t = m.pending.txs.items[i]; assert!(t.nonce == st.nonce + i as u32); acc = acc.saturating_add(t.cost as u32); i += 1; }
        assert!(acc <= st.balance);
        assert!(m.parked.txs.n <= MAX_PARKED_TXS_PER_ACCOUNT);
    }
    #[kani::proof]
    #[kani::unwind(5)]
    #[kani::stub(alloc::fmt::format, crate::vx_stub_format)]
    fn maintenance_exactly_one_place_0_ready_1_parked() { maintenance_contract(0, 1); }
    #[kani::proof]
    #[kani::unwind(5)]
    #[kani::stub(alloc::fmt::format, crate::vx_stub_format)]
    fn maintenance_exactly_one_place_0_ready_2_parked() { maintenance_contract(0, 2); }
    #[kani::proof]
    #[kani::unwind(5)]
    #[kani::stub(alloc::fmt::format, crate::vx_stub_format)]
    fn maintenance_exactly_one_place_1_ready_0_parked() { maintenance_contract(1, 0); }
    #[kani::proof]
    #[kani::unwind(5)]
    #[kani::stub(alloc::fmt::format, crate::vx_stub_format)]
    fn maintenance_exactly_one_place_1_ready_1_parked() { maintenance_contract(1, 1); }
    #[kani::proof]
    #[kani::unwind(5)]
    #[kani::stub(alloc::fmt::format, crate::vx_stub_format)]
    fn maintenance_exactly_one_place_1_ready_2_parked() { maintenance_contract(1, 2); }
    #[kani::proof]
    #[kani::unwind(5)]
    #[kani::stub(alloc::fmt::format, crate::vx_stub_format)]
    fn maintenance_exactly_one_place_2_ready_0_parked() { maintenance_contract(2, 0); }
    #[kani::proof]
    #[kani::unwind(5)]
    #[kani::stub(alloc::fmt::format, crate::vx_stub_format)]
    fn maintenance_exactly_one_place_2_ready_1_parked() { maintenance_contract(2, 1); }
    #[kani::proof]
    #[kani::unwind(5)]
    #[kani::stub(alloc::fmt::format, crate::vx_stub_format)]
    fn maintenance_exactly_one_place_2_ready_2_parked() { maintenance_contract(2, 2); }
    #[kani::proof]
    #[kani::unwind(5)]
    #[kani::stub(alloc::fmt::format, crate::vx_stub_format)]
    fn canary_maintenance_promotion_reachable() {
        let mut m = any_mempool(1, 1);
        let st = ChainState { nonce: kani::any(), balance: kani::any(), fail: false };
        kani::assume(st.nonce < 16);
        m.run_maintenance(&st, false, HashMap::default(), 1);
        assert!(!(m.parked.txs.n == 0 && m.pending.txs.n == 2 && m.comet_bft_removal_cache.cache.n == 0));   // must FAIL: promotions happen
    }
    #[kani::proof]
    #[kani::unwind(5)]
    #[kani::stub(alloc::fmt::format, crate::vx_stub_format)]
    fn canary_maintenance_parked_limit_reachable() {
        let mut m = any_mempool(2, 2);
        let st = ChainState { nonce: kani::any(), balance: kani::any(), fail: false };
        kani::assume(st.nonce < 16 && m.pending.txs.items[0].nonce <= st.nonce);
        m.run_maintenance(&st, false, HashMap::default(), 1);
        assert!(unsafe { LOGIC_ERRORS } == 0);   // must FAIL: demoting 2 into a parked queue of limit 3 holding 2 hits the limit branch
    }
'''

UNIT = dict(
    name="c13_maintenance", mode="K", properties=["C13"],
    shim_files=["shims/common.rs"],
    prelude=PRELUDE,
    items=[
        dict(file=F, path="struct MempoolInner"),
        dict(file=F, path="impl MempoolInner/fn run_maintenance"),
    ],
    harness=HARNESS,
    harnesses=[
        dict(name="maintenance_exactly_one_place_0_ready_1_parked", tier="thorough", obligation="MempoolInner::run_maintenance::ensures#exactly-one-place+no-used-nonce-remains+ready-queue-consecutive-and-affordable+parked-limit[0 ready,1 parked]", bounded="one account, exactly 0 ready and 1 parked transactions, single-asset 16-bit costs, nonces < 16, parked limit 3"),
        dict(name="maintenance_exactly_one_place_0_ready_2_parked", obligation="MempoolInner::run_maintenance::ensures#exactly-one-place+no-used-nonce-remains+ready-queue-consecutive-and-affordable+parked-limit[0 ready,2 parked]", bounded="one account, exactly 0 ready and 2 parked transactions, single-asset 16-bit costs, nonces < 16, parked limit 3"),
        dict(name="maintenance_exactly_one_place_1_ready_0_parked", tier="thorough", obligation="MempoolInner::run_maintenance::ensures#exactly-one-place+no-used-nonce-remains+ready-queue-consecutive-and-affordable+parked-limit[1 ready,0 parked]", bounded="one account, exactly 1 ready and 0 parked transactions, single-asset 16-bit costs, nonces < 16, parked limit 3"),
        dict(name="maintenance_exactly_one_place_1_ready_1_parked", obligation="MempoolInner::run_maintenance::ensures#exactly-one-place+no-used-nonce-remains+ready-queue-consecutive-and-affordable+parked-limit[1 ready,1 parked]", bounded="one account, exactly 1 ready and 1 parked transactions, single-asset 16-bit costs, nonces < 16, parked limit 3"),
        dict(name="maintenance_exactly_one_place_1_ready_2_parked", obligation="MempoolInner::run_maintenance::ensures#exactly-one-place+no-used-nonce-remains+ready-queue-consecutive-and-affordable+parked-limit[1 ready,2 parked]", bounded="one account, exactly 1 ready and 2 parked transactions, single-asset 16-bit costs, nonces < 16, parked limit 3"),
        dict(name="maintenance_exactly_one_place_2_ready_0_parked", tier="thorough", obligation="MempoolInner::run_maintenance::ensures#exactly-one-place+no-used-nonce-remains+ready-queue-consecutive-and-affordable+parked-limit[2 ready,0 parked]", bounded="one account, exactly 2 ready and 0 parked transactions, single-asset 16-bit costs, nonces < 16, parked limit 3"),
        dict(name="maintenance_exactly_one_place_2_ready_1_parked", obligation="MempoolInner::run_maintenance::ensures#exactly-one-place+no-used-nonce-remains+ready-queue-consecutive-and-affordable+parked-limit[2 ready,1 parked]", bounded="one account, exactly 2 ready and 1 parked transactions, single-asset 16-bit costs, nonces < 16, parked limit 3"),
        dict(name="maintenance_exactly_one_place_2_ready_2_parked", obligation="MempoolInner::run_maintenance::ensures#exactly-one-place+no-used-nonce-remains+ready-queue-consecutive-and-affordable+parked-limit[2 ready,2 parked]", bounded="one account, exactly 2 ready and 2 parked transactions, single-asset 16-bit costs, nonces < 16, parked limit 3"),
        dict(name="canary_maintenance_promotion_reachable", expect="fail"),
        dict(name="canary_maintenance_parked_limit_reachable", expect="fail"),
    ],
    harness_timeout=900,
    assumptions=["the per-account containers (PendingTransactions, ParkedTransactions) are stand-ins that implement the CONTRACTS of the real ones for a single account with single-asset costs: clean stale, find_demotables, find_promotables, subtract_contained_costs, add (the contract of add for the ready container is proved on the real text in unit c13_mempool); transaction expiry is not modelled",
                 "Vec/HashSet/HashMap are fixed-capacity lists; RemovalCache, RecentExecutionResults and metrics are loggers",
                 "NOT under contract: Mempool::insert / remove_tx_invalid orchestration, the async RwLock around MempoolInner, builder_queue sorting"],
)
