F = "crates/astria-conductor/src/celestia/block_verifier.rs"

PRELUDE = r'''
// ---- tendermint / crypto shim (trusted): small finite stand-ins with the same names and field layout ----
pub const MAXV: usize = 2;   // bound on validators and on commit signatures in this unit's harnesses

/// fixed-capacity list standing in for Vec (iteration only): avoids heap modelling in CBMC.
/// Plain array + length (no Option slots: niche-encoded Option slots gave counterexamples in Kani 0.68 that do not reproduce natively).
#[derive(Clone, Copy, Debug)]
pub struct List<T: Copy + Default> { pub items: [T; MAXV], pub n: usize }
impl<T: Copy + Default> List<T> {
    pub fn new() -> Self { List { items: [T::default(); MAXV], n: 0 } }
    pub fn push(&mut self, v: T) { assert!(self.n < MAXV); self.items[self.n] = v; self.n += 1; }
    pub fn len(&self) -> usize { self.n }
    pub fn iter(&self) -> std::slice::Iter<'_, T> { self.items[..self.n].iter() }
    pub fn at(&self, i: usize) -> &T { assert!(i < self.n); &self.items[i] }
}
impl<'a, T: Copy + Default> IntoIterator for &'a List<T> { type Item = &'a T; type IntoIter = std::slice::Iter<'a, T>; fn into_iter(self) -> std::slice::Iter<'a, T> { self.iter() } }

/// association list standing in for std::collections::HashMap (same API subset: collect, get)
pub struct HashMap<K: Copy, V: Copy> { pub keys: [Option<K>; MAXV], pub vals: [Option<V>; MAXV], pub n: usize }
impl<K: PartialEq + Copy, V: Copy> FromIterator<(K, V)> for HashMap<K, V> {
    fn from_iter<I: IntoIterator<Item = (K, V)>>(iter: I) -> Self {
        let mut m = HashMap { keys: [None; MAXV], vals: [None; MAXV], n: 0 };
        for (k, v) in iter { assert!(m.n < MAXV); m.keys[m.n] = Some(k); m.vals[m.n] = Some(v); m.n += 1; }
        m
    }
}
impl<K: PartialEq + Copy, V: Copy> HashMap<K, V> {
    /// a later entry with the same key replaces an earlier one, as in std: return the last match
    pub fn get(&self, k: &K) -> Option<&V> {
        let mut res = None;
        let mut i = 0;
        while i < self.n { if self.keys[i] == Some(*k) { res = self.vals[i].as_ref(); } i += 1; }
        res
    }
}
/// std::collections::HashSet stand-in (insert returns whether the value was new)
pub struct HashSet<K: Copy + Default> { pub items: List<K> }
impl<K: PartialEq + Copy + Default> HashSet<K> {
    pub fn new() -> Self { HashSet { items: List::new() } }
    pub fn with_capacity(_n: usize) -> Self { HashSet { items: List::new() } }
    pub fn insert(&mut self, k: K) -> bool { let mut i = 0; while i < self.items.n { if *self.items.at(i) == k { return false; } i += 1; } self.items.push(k); true }
    pub fn contains(&self, k: &K) -> bool { let mut i = 0; while i < self.items.n { if *self.items.at(i) == *k { return true; } i += 1; } false }
}

pub mod astria_core { pub mod crypto { #[derive(Debug, Clone, Copy)] pub struct Error; } }
use astria_core::crypto::Error as CryptoError;

/// every signature check the code performs is recorded here
#[derive(Clone, Copy, Debug, PartialEq, Eq)]
pub struct VerifyCall { pub key: u8, pub sig: u8, pub msg: tendermint::vote::CanonicalVote, pub ok: bool }
pub static mut VERIFY_LOG: [Option<VerifyCall>; 8] = [None; 8];
pub static mut VERIFY_N: usize = 0;

#[derive(Clone, Copy, Debug)] pub struct VerificationKey(pub u8);
impl TryFrom<&[u8]> for VerificationKey {
    type Error = CryptoError;
    fn try_from(b: &[u8]) -> Result<Self, CryptoError> { if b.len() == 1 && kani::any() { Ok(VerificationKey(b[0])) } else { Err(CryptoError) } }
}
impl VerificationKey {
    /// ed25519 verification as an opaque predicate: arbitrary verdict, logged with exactly the key, signature and message used
    pub fn verify(&self, sig: &Signature, msg: &tendermint::vote::CanonicalVote) -> Result<(), CryptoError> {
        let ok: bool = kani::any();
        unsafe {
            assert!(VERIFY_N < 8);
            VERIFY_LOG[VERIFY_N] = Some(VerifyCall { key: self.0, sig: sig.0, msg: *msg, ok });
            VERIFY_N += 1;
        }
        if ok { Ok(()) } else { Err(CryptoError) }
    }
}
#[derive(Clone, Copy, Debug)] pub struct Signature(pub u8);
impl TryFrom<&[u8]> for Signature {
    type Error = CryptoError;
    fn try_from(b: &[u8]) -> Result<Self, CryptoError> { if b.len() == 1 && kani::any() { Ok(Signature(b[0])) } else { Err(CryptoError) } }
}

pub mod tendermint {
    #[derive(Clone, Copy, Debug, PartialEq, Eq, Default)] pub struct Time(pub u8);
    #[derive(Clone, Copy, Debug, PartialEq, Eq, Default)] pub struct PublicKey(pub u8);
    impl PublicKey { pub fn to_bytes(&self) -> [u8; 1] { [self.0] } }
    #[derive(Clone, Copy, Debug, PartialEq, Eq, Default)] pub struct TmSignature(pub u8);
    impl TmSignature { pub fn as_bytes(&self) -> &[u8] { std::slice::from_ref(&self.0) } }
    pub mod account {
        #[derive(Clone, Copy, Debug, PartialEq, Eq, Default)] pub struct Id(pub u8);
        /// address = hash of the public key; modelled as an injective function (H-inj)
        impl From<super::PublicKey> for Id { fn from(k: super::PublicKey) -> Id { Id(k.0.wrapping_mul(7).wrapping_add(3)) } }
    }
    pub mod chain { #[derive(Clone, Copy, Debug, PartialEq, Eq)] pub struct Id(pub u8); }
    pub mod block {
        #[derive(Clone, Copy, Debug, PartialEq, Eq)] pub struct Height(pub u64);
        #[derive(Clone, Copy, Debug, PartialEq, Eq)] pub struct Round(pub u8);
        #[derive(Clone, Copy, Debug, PartialEq, Eq)] pub struct Id(pub u8);
        #[derive(Clone, Copy, Debug, PartialEq, Eq, Default)]
        pub enum CommitSig {
            #[default] BlockIdFlagAbsent,
            BlockIdFlagCommit { validator_address: super::account::Id, timestamp: super::Time, signature: Option<super::TmSignature> },
            BlockIdFlagNil { validator_address: super::account::Id, timestamp: super::Time, signature: Option<super::TmSignature> },
        }
        #[derive(Clone, Copy, Debug)]
        pub struct Commit { pub height: Height, pub round: Round, pub block_id: Id, pub signatures: crate::List<CommitSig> }
    }
    pub mod vote {
        #[derive(Clone, Copy, Debug, PartialEq, Eq)] pub enum Type { Prevote, Precommit }
        #[derive(Clone, Copy, Debug, PartialEq, Eq)]
        pub struct CanonicalVote {
            pub vote_type: Type, pub height: super::block::Height, pub round: super::block::Round,
            pub block_id: Option<super::block::Id>, pub timestamp: Option<super::Time>, pub chain_id: super::chain::Id,
        }
    }
    pub mod validator {
        #[derive(Clone, Copy, Debug, Default)] pub struct Info { pub address: super::account::Id, pub pub_key: super::PublicKey, pub power: u64 }
        impl Info { pub fn power(&self) -> u64 { self.power } }
    }
}
pub mod tendermint_rpc { pub mod endpoint { pub mod validators {
    pub struct Response { pub block_height: crate::tendermint::block::Height, pub validators: crate::List<crate::tendermint::validator::Info> }
} } }
pub mod sequencer_client { pub mod tendermint_proto { pub mod types {
    /// protobuf encoding of the canonical vote: identity here (prost encoding trusted to be injective)
    pub struct CanonicalVote(pub crate::tendermint::vote::CanonicalVote);
    impl From<crate::tendermint::vote::CanonicalVote> for CanonicalVote { fn from(v: crate::tendermint::vote::CanonicalVote) -> Self { CanonicalVote(v) } }
    impl CanonicalVote { pub fn encode_length_delimited_to_vec(&self) -> crate::tendermint::vote::CanonicalVote { self.0 } }
} } }
pub use tendermint::block::Height;
'''

HARNESS = r'''
    use crate::tendermint::{self as tm, block::{Commit, CommitSig}, validator::Info};

    fn any_sig() -> CommitSig {
        let addr = tm::account::Id(kani::any());
        let timestamp = tm::Time(kani::any());
        let signature = if kani::any() { Some(tm::TmSignature(kani::any())) } else { None };
        let k: u8 = kani::any();
        match k % 3 {
            0 => CommitSig::BlockIdFlagAbsent,
            1 => CommitSig::BlockIdFlagCommit { validator_address: addr, timestamp, signature },
            _ => CommitSig::BlockIdFlagNil { validator_address: addr, timestamp, signature },
        }
    }

    fn setup() -> (Commit, tendermint_rpc::endpoint::validators::Response, tm::chain::Id) {
        let nv: usize = kani::any();
        kani::assume(nv <= MAXV);
        let mut validators = List::new();
        let mut i = 0;
        while i < nv {
            let pk = tm::PublicKey(kani::any());
            validators.push(Info { address: tm::account::Id::from(pk), pub_key: pk, power: kani::any() });
            i += 1;
        }
        // precondition: a CometBFT validator set lists every validator once
        if nv == 2 { kani::assume(validators.at(0).pub_key != validators.at(1).pub_key); }
        let ns: usize = kani::any();
        kani::assume(ns <= MAXV);
        let mut signatures = List::new();
        let mut j = 0;
        while j < ns { signatures.push(any_sig()); j += 1; }
        let commit = Commit { height: Height(kani::any()), round: tm::block::Round(kani::any()), block_id: tm::block::Id(kani::any()), signatures };
        let set = tendermint_rpc::endpoint::validators::Response { block_height: Height(kani::any()), validators };
        unsafe { VERIFY_N = 0; VERIFY_LOG = [None; 8]; }
        (commit, set, tm::chain::Id(kani::any()))
    }

    /// did the code obtain a *successful* signature check for validator `v` over the canonical precommit vote of this
    /// commit (its height, round, block id, the chain id, and the timestamp of one of v's commit signatures)?
    fn validly_signed(v: &Info, commit: &Commit, chain_id: tm::chain::Id) -> bool {
        let mut res = false;
        let mut k = 0;
        while k < 8 {
            if let Some(c) = unsafe { VERIFY_LOG[k] } {
                if c.ok && c.key == v.pub_key.0 {
                    let mut j = 0;
                    while j < commit.signatures.len() {
                        if let CommitSig::BlockIdFlagCommit { validator_address, timestamp, signature: Some(s) } = *commit.signatures.at(j) {
                            if validator_address == tm::account::Id::from(v.pub_key) && s.0 == c.sig
                                && c.msg == (tm::vote::CanonicalVote { vote_type: tm::vote::Type::Precommit, height: commit.height, round: commit.round,
                                                                       block_id: Some(commit.block_id), timestamp: Some(timestamp), chain_id }) {
                                res = true;
                            }
                        }
                        j += 1;
                    }
                }
            }
            k += 1;
        }
        res
    }

    #[kani::proof]
    #[kani::unwind(10)]
    fn quorum_ok_implies_two_thirds_of_distinct_signers() {
        let (commit, set, chain_id) = setup();
        let r = ensure_commit_has_quorum(&commit, &set, &chain_id);
        if r.is_ok() {
            assert!(commit.height == set.block_height);
            // exact tally over DISTINCT validators of the set that validly signed this very block
            let mut total: u128 = 0;
            let mut signed: u128 = 0;
            let mut i = 0;
            while i < set.validators.len() {
                let v = set.validators.at(i);
                total += v.power as u128;
                // a validator listed twice in the set is counted once
                let mut dup = false;
                let mut p = 0;
                while p < i { if set.validators.at(p).pub_key == v.pub_key { dup = true; } p += 1; }
                if !dup && validly_signed(v, &commit, chain_id) { signed += v.power as u128; }
                i += 1;
            }
            assert!(3 * signed > 2 * total);
        }
    }

    #[kani::proof]
    #[kani::unwind(10)]
    fn canary_quorum_reachable() {
        let (commit, set, chain_id) = setup();
        assert!(ensure_commit_has_quorum(&commit, &set, &chain_id).is_err());   // must FAIL
    }
'''

UNIT = dict(
    name="c09_tally", mode="K", properties=["C09"],
    shim_files=["shims/common.rs"],
    prelude=PRELUDE,
    items=[
        dict(file=F, path="enum QuorumError"),
        dict(file=F, path="fn ensure_commit_has_quorum"),
        dict(file=F, path="fn does_commit_voting_power_have_quorum"),
        dict(file=F, path="fn verify_vote_signature"),
    ],
    harness=HARNESS,
    harnesses=[
        dict(name="quorum_ok_implies_two_thirds_of_distinct_signers",
             obligation="ensure_commit_has_quorum::ensures#Ok=>distinct-valid-signers-hold-more-than-two-thirds",
             label="Ok only if distinct validators of the set, each with a successful signature check over this commit's canonical vote, hold > 2/3 of the total power",
             bounded="at most 2 validators and 2 commit signatures (the tally loop is not closed by an invariant here)"),
        dict(name="canary_quorum_reachable", expect="fail"),
    ],
    assumptions=[
        "ed25519 verification is an opaque predicate with an arbitrary verdict; the obligation is about which (key, message, signature) triples were checked",
        "validator address = injective function of the public key (H-inj); keys, signatures, ids are 8-bit values",
        "HashMap/HashSet replaced by association lists with the same collect/get/insert semantics",
        "protobuf encoding of CanonicalVote is injective (identity in the shim)",
        "precondition: the validator set returned by the sequencer RPC lists every validator (public key) once",
    ],
)
