# Lifting lemma for C10, over the step contracts discharged by unit c10_executor (Kani) and c10_conductor (BlockCache).
# No function of /repo is cut here: this unit is the induction that replaces the quantifier over interleavings.

LEMMAS = r'''
// Abstract executor state as exposed by the step contracts: rollup numbers of the firm and soft heads, and the log of
// ExecuteBlock calls (sequencer height executed, rollup number produced).  h0/r0: sequencer start height / rollup start number,
// so that the sequencer height mapped from rollup number r is h0 + (r - r0).
pub struct Ex { pub firm: nat, pub soft: nat, pub executed: Seq<nat> }     // executed[i] = sequencer height of the i-th ExecuteBlock

pub open spec fn next_soft(e: Ex, h0: nat, r0: nat) -> nat { (h0 + e.soft + 1 - r0) as nat }
pub open spec fn next_firm(e: Ex, h0: nat, r0: nat) -> nat { (h0 + e.firm + 1 - r0) as nat }

/// Inv: firm <= soft; the heights executed so far are exactly start, start+1, ..., next_soft-1, each once, in order
pub open spec fn inv(e: Ex, e0: Ex, h0: nat, r0: nat) -> bool {
    &&& r0 <= e0.firm + 1 && e0.firm <= e0.soft
    &&& e.firm <= e.soft && e0.firm <= e.firm && e0.soft <= e.soft
    &&& e.executed.len() == e.soft - e0.soft
    &&& forall|i: int| 0 <= i < e.executed.len() ==> #[trigger] e.executed[i] == next_soft(e0, h0, r0) + i
}

pub enum Delivery { Soft { height: nat, ok: bool }, Firm { height: nat, ok: bool, firm_only: bool } }

/// one step, as permitted by the contracts of execute_soft / execute_firm (unit c10_executor):
///  soft: height < next_soft: nothing happens;  > next_soft: error, nothing happens;  == : at most one ExecuteBlock of that height,
///        on success soft+1;
///  firm: height != next_firm: error, nothing happens; == : executes iff (firm-only or next_firm == next_soft) and then firm+1 == soft+1... ;
///        otherwise no ExecuteBlock and on success firm+1 (<= soft).
pub open spec fn step(e: Ex, d: Delivery, h0: nat, r0: nat) -> Ex {
    match d {
        Delivery::Soft { height, ok } =>
            if height == next_soft(e, h0, r0) && ok { Ex { firm: e.firm, soft: e.soft + 1, executed: e.executed.push(height) } } else { e },
        Delivery::Firm { height, ok, firm_only } =>
            if height == next_firm(e, h0, r0) && ok {
                if e.firm == e.soft { Ex { firm: e.firm + 1, soft: e.soft + 1, executed: e.executed.push(height) } }     // not yet soft-executed: executed now, both heads move
                else { Ex { firm: e.firm + 1, soft: e.soft, executed: e.executed } }                                     // already soft-executed: only committed
            } else { e },
    }
}

pub proof fn lemma_step_preserves_inv(e: Ex, e0: Ex, d: Delivery, h0: nat, r0: nat)
    requires inv(e, e0, h0, r0)
    ensures inv(step(e, d, h0, r0), e0, h0, r0)
{
    let e2 = step(e, d, h0, r0);
    match d {
        Delivery::Soft { height, ok } => {
            if height == next_soft(e, h0, r0) && ok {
                assert forall|i: int| 0 <= i < e2.executed.len() implies #[trigger] e2.executed[i] == next_soft(e0, h0, r0) + i by {
                    if i < e.executed.len() { assert(e2.executed[i] == e.executed[i]); }
                }
            }
        }
        Delivery::Firm { height, ok, firm_only } => {
            if height == next_firm(e, h0, r0) && ok && e.firm == e.soft {
                assert forall|i: int| 0 <= i < e2.executed.len() implies #[trigger] e2.executed[i] == next_soft(e0, h0, r0) + i by {
                    if i < e.executed.len() { assert(e2.executed[i] == e.executed[i]); }
                }
            }
        }
    }
}

pub open spec fn run(e0: Ex, ds: Seq<Delivery>, h0: nat, r0: nat) -> Ex
    decreases ds.len()
{ if ds.len() == 0 { e0 } else { step(run(e0, ds.drop_last(), h0, r0), ds.last(), h0, r0) } }

/// Any finite interleaving of soft and firm deliveries (any order, duplicates, stale or out-of-order blocks, failing RPCs):
/// the rollup has been asked to execute exactly the heights start .. next_soft-1, each once, in increasing order;
/// commitments never decreased and firm <= soft.
pub proof fn lemma_any_interleaving(e0: Ex, ds: Seq<Delivery>, h0: nat, r0: nat)
    requires e0.executed.len() == 0, e0.firm <= e0.soft, r0 <= e0.firm + 1,
    ensures ({
        let e = run(e0, ds, h0, r0);
        &&& inv(e, e0, h0, r0)
        &&& forall|i: int, j: int| 0 <= i < j < e.executed.len() ==> e.executed[i] < e.executed[j]       // strictly increasing: once each, in order
        &&& forall|i: int| 0 <= i < e.executed.len() - 1 ==> #[trigger] e.executed[i + 1] == e.executed[i] + 1   // no height skipped
    })
    decreases ds.len()
{
    if ds.len() == 0 {
        assert(inv(e0, e0, h0, r0));
    } else {
        lemma_any_interleaving(e0, ds.drop_last(), h0, r0);
        lemma_step_preserves_inv(run(e0, ds.drop_last(), h0, r0), e0, ds.last(), h0, r0);
    }
}

/// non-vacuity witness: a soft block at the next height is executed, its duplicate is not
pub proof fn witness_soft_once()
{
    let e0 = Ex { firm: 0, soft: 0, executed: Seq::empty() };
    let d = Delivery::Soft { height: 11, ok: true };
    let ds1 = seq![d]; let ds2 = seq![d, d];
    assert(ds1.drop_last() =~= Seq::<Delivery>::empty());
    assert(run(e0, ds1.drop_last(), 10, 0) == e0);
    assert(next_soft(e0, 10, 0) == 11);
    assert(run(e0, ds1, 10, 0).executed =~= seq![11nat]);
    assert(ds2.drop_last() =~= ds1);
    assert(run(e0, ds2, 10, 0).executed =~= seq![11nat]);
}
'''

UNIT = dict(
    name="c10_interleaving", mode="V", properties=["C10"],
    prelude="", items=[], lemmas=LEMMAS,
    assumptions=["the transition relation `step` is a transcription of the step contracts proved by Kani in unit c10_executor (execute_soft / execute_firm) — the transcription itself is trusted, it is not derived mechanically",
                 "deliveries are processed one at a time (the executor awaits each step inside one tokio task)"],
)
