R = "crates/astria-conductor/src/celestia/reconstruct.rs"
M = "crates/astria-core/src/sequencerblock/v1/mod.rs"

PRELUDE = r'''
// ---- stand-ins: Merkle audits are logged opaque predicates; rollup data / metadata are small records ----------------
#[derive(Clone, Copy, Debug, PartialEq, Eq)] pub struct RollupId(pub u8);
impl RollupId { pub fn as_bytes(&self) -> &[u8] { std::slice::from_ref(&self.0) } }
impl AsRef<[u8]> for RollupId { fn as_ref(&self) -> &[u8] { std::slice::from_ref(&self.0) } }
pub mod block { #[derive(Clone, Copy, Debug, PartialEq, Eq, Hash)] pub struct Hash(pub u8); }
#[derive(Clone, Copy, Debug, PartialEq, Eq)] pub struct TxList(pub u8);          // the list of rollup transactions (opaque)
#[derive(Clone, Copy, Debug, PartialEq, Eq)] pub struct ProofId(pub u8);         // a merkle::Proof (opaque)

/// one logged audit: which proof, against which root, over which leaf bytes, with which verdict
#[derive(Clone, Copy, Debug, PartialEq, Eq)]
pub struct AuditCall { pub proof: ProofId, pub root: [u8; 32], pub leaf: [u8; 2], pub leaf_len: usize, pub verdict: bool }
pub static mut AUDITS: [Option<AuditCall>; 4] = [None; 4];
pub static mut N_AUDITS: usize = 0;
pub mod merkle {
    /// MTH of a transaction list: an uninterpreted injective function (H-inj)
    pub struct Tree(pub u8);
    impl Tree { pub fn from_leaves(t: crate::TxList) -> Tree { Tree(t.0) } pub fn root(&self) -> [u8; 1] { [self.0.wrapping_mul(31).wrapping_add(7)] } }
}
impl ProofId { pub fn audit(&self) -> Audit { Audit { proof: *self, root: [0; 32], leaf: [0; 2], n: 0 } } }
pub struct Audit { proof: ProofId, root: [u8; 32], leaf: [u8; 2], n: usize }
impl Audit {
    pub fn with_root(mut self, root: [u8; 32]) -> Self { self.root = root; self }
    pub fn with_leaf_builder(self) -> Self { self }
    pub fn write(mut self, b: &[u8]) -> Self { let mut i = 0; while i < b.len() { assert!(self.n < 2); self.leaf[self.n] = b[i]; self.n += 1; i += 1; } self }
    pub fn finish_leaf(self) -> Self { self }
    pub fn perform(&self) -> bool {
        let verdict: bool = kani::any();
        unsafe { assert!(N_AUDITS < 4); AUDITS[N_AUDITS] = Some(AuditCall { proof: self.proof, root: self.root, leaf: self.leaf, leaf_len: self.n, verdict }); N_AUDITS += 1; }
        verdict
    }
}
#[derive(Clone, Copy, Debug, PartialEq, Eq)]
pub struct SubmittedRollupData { pub sequencer_block_hash: block::Hash, pub rollup_id: RollupId, pub transactions: TxList, pub proof: ProofId }
impl SubmittedRollupData {
    pub fn proof(&self) -> &ProofId { &self.proof } pub fn rollup_id(&self) -> RollupId { self.rollup_id }
    pub fn transactions(&self) -> TxList { self.transactions } pub fn sequencer_block_hash(&self) -> &block::Hash { &self.sequencer_block_hash }
}
#[derive(Clone, Copy, Debug, PartialEq, Eq)]
pub struct SubmittedMetadata { pub block_hash: block::Hash, pub rollup_transactions_root: [u8; 32] }
impl SubmittedMetadata { pub fn rollup_transactions_root(&self) -> &[u8; 32] { &self.rollup_transactions_root } }
#[derive(Clone, Copy, Debug, PartialEq, Eq)]
pub struct RollupTransactions { pub rollup_id: RollupId, pub transactions: TxList, pub proof: ProofId }
impl RollupTransactions { pub fn rollup_id(&self) -> RollupId { self.rollup_id } pub fn transactions(&self) -> TxList { self.transactions } pub fn proof(&self) -> &ProofId { &self.proof } }
/// HashMap<block::Hash, SubmittedMetadata> stand-in (2 entries)
pub struct HashMap<K, V> { pub items: [Option<(K, V)>; 2] }
impl HashMap<block::Hash, SubmittedMetadata> {
    pub fn get(&self, k: &block::Hash) -> Option<&SubmittedMetadata> { let mut r = None; let mut i = 0; while i < 2 { if let Some((kk, v)) = &self.items[i] { if *kk == *k { r = Some(v); } } i += 1; } r }
    pub fn remove(&mut self, k: &block::Hash) -> Option<SubmittedMetadata> { let mut r = None; let mut i = 0; while i < 2 { let hit = match &self.items[i] { Some((kk, _)) => *kk == *k, None => false }; if hit { r = self.items[i].take().map(|e| e.1); } i += 1; } r }
}
'''

HARNESS = r'''
    fn leaf_of(id: RollupId, txs: TxList) -> [u8; 2] { [id.0, merkle::Tree::from_leaves(txs).root()[0]] }
    fn last_audit() -> AuditCall { unsafe { AUDITS[N_AUDITS - 1] }.unwrap() }

    // ---- conductor: rollup data is attached to metadata only through an audit of exactly that data against exactly that metadata's root ----
    #[kani::proof]
    #[kani::unwind(34)]
    fn rollup_blob_is_bound_to_header_root() {
        unsafe { N_AUDITS = 0; AUDITS = [None; 4]; }
        let rollup = SubmittedRollupData { sequencer_block_hash: block::Hash(kani::any()), rollup_id: RollupId(kani::any()), transactions: TxList(kani::any()), proof: ProofId(kani::any()) };
        let header = SubmittedMetadata { block_hash: block::Hash(kani::any()), rollup_transactions_root: kani::any() };
        let r = verify_rollup_blob_against_sequencer_blob(&rollup, &header);
        assert!(unsafe { N_AUDITS } == 1);
        let a = last_audit();
        assert!(r == a.verdict);
        assert!(a.proof == rollup.proof);                                   // the blob's own proof
        assert!(a.root == header.rollup_transactions_root);                 // against the root of THIS metadata
        assert!(a.leaf_len == 2 && a.leaf == leaf_of(rollup.rollup_id, rollup.transactions));   // leaf = rollup id ‖ MTH(the blob's transactions)
    }
    #[kani::proof]
    #[kani::unwind(34)]
    fn header_is_consumed_only_by_a_verified_matching_blob() {
        unsafe { N_AUDITS = 0; AUDITS = [None; 4]; }
        let rollup = SubmittedRollupData { sequencer_block_hash: block::Hash(kani::any()), rollup_id: RollupId(kani::any()), transactions: TxList(kani::any()), proof: ProofId(kani::any()) };
        let h1 = SubmittedMetadata { block_hash: block::Hash(kani::any()), rollup_transactions_root: kani::any() };
        let h2 = SubmittedMetadata { block_hash: block::Hash(kani::any()), rollup_transactions_root: kani::any() };
        kani::assume(h1.block_hash != h2.block_hash);                    // verified header blobs have unique block hashes
        let mut headers = HashMap { items: [if kani::any() { Some((h1.block_hash, h1)) } else { None }, if kani::any() { Some((h2.block_hash, h2)) } else { None }] };
        let before1 = headers.get(&h1.block_hash).copied(); let before2 = headers.get(&h2.block_hash).copied();
        let out = remove_header_blob_matching_rollup_blob(&mut headers, &rollup);
        match out {
            Some(h) => {
                // the returned metadata is the one stored under the blob's block hash, and the blob passed the audit against ITS root
                assert!(h.block_hash == rollup.sequencer_block_hash);
                assert!(Some(h) == before1 || Some(h) == before2);
                let a = last_audit();
                assert!(a.verdict && a.root == h.rollup_transactions_root && a.proof == rollup.proof && a.leaf == leaf_of(rollup.rollup_id, rollup.transactions));
                assert!(headers.get(&h.block_hash).is_none());
            }
            None => { assert!(headers.get(&h1.block_hash).copied() == before1 && headers.get(&h2.block_hash).copied() == before2); }   // nothing is consumed by a blob that does not verify
        }
    }
    #[kani::proof]
    #[kani::unwind(34)]
    fn canary_header_consumed_reachable() {
        unsafe { N_AUDITS = 0; AUDITS = [None; 4]; }
        let rollup = SubmittedRollupData { sequencer_block_hash: block::Hash(kani::any()), rollup_id: RollupId(kani::any()), transactions: TxList(kani::any()), proof: ProofId(kani::any()) };
        let h1 = SubmittedMetadata { block_hash: block::Hash(kani::any()), rollup_transactions_root: kani::any() };
        let mut headers = HashMap { items: [Some((h1.block_hash, h1)), None] };
        assert!(remove_header_blob_matching_rollup_blob(&mut headers, &rollup).is_none());    // must FAIL: a verified matching blob consumes its header
    }
    // ---- astria-core: per-rollup data of a served block is checked against the header root with its own id and its own transactions ----
    #[kani::proof]
    #[kani::unwind(34)]
    fn rollup_transactions_match_root_binding() {
        unsafe { N_AUDITS = 0; AUDITS = [None; 4]; }
        let rt = RollupTransactions { rollup_id: RollupId(kani::any()), transactions: TxList(kani::any()), proof: ProofId(kani::any()) };
        let root: [u8; 32] = kani::any();
        let r = do_rollup_transactions_match_root(&rt, root);
        let a = last_audit();
        assert!(unsafe { N_AUDITS } == 1 && r == a.verdict && a.proof == rt.proof && a.root == root && a.leaf_len == 2 && a.leaf == leaf_of(rt.rollup_id, rt.transactions));
    }
'''

UNIT = dict(
    name="c07_binding", mode="K", properties=["C07", "C09"],
    shim_files=["shims/common.rs"],
    prelude=PRELUDE,
    items=[
        dict(file=R, path="fn remove_header_blob_matching_rollup_blob"),
        dict(file=R, path="fn verify_rollup_blob_against_sequencer_blob"),
        dict(file=M, path="fn do_rollup_transactions_match_root"),
    ],
    harness=HARNESS,
    harnesses=[
        dict(name="rollup_blob_is_bound_to_header_root", obligation="reconstruct::verify_rollup_blob_against_sequencer_blob::ensures#audits-own-proof+this-root+leaf==id‖MTH(own-txs)"),
        dict(name="header_is_consumed_only_by_a_verified_matching_blob", obligation="reconstruct::remove_header_blob_matching_rollup_blob::ensures#Some=>same-block-hash+audited;None=>map-unchanged"),
        dict(name="canary_header_consumed_reachable", expect="fail"),
        dict(name="rollup_transactions_match_root_binding", obligation="sequencerblock::v1::do_rollup_transactions_match_root::ensures#audits-own-proof+given-root+leaf==id‖MTH(own-txs)"),
    ],
    assumptions=["Merkle audits are opaque predicates with an arbitrary verdict, logged with proof, root and leaf bytes; that a verifying audit implies membership of exactly that leaf is property C08 (H-inj)",
                 "MTH(transactions) is an uninterpreted function of the transaction list (1 byte here); rollup ids are 1 byte; the header map holds at most 2 entries",
                 "NOT under contract: the builder side (generate_rollup_datas_commitment, SequencerBlockBuilder::try_build), gRPC filtering, split_for_celestia, the try_from_raw constructors, reconstruct_blocks_from_verified_blobs' loops"],
)
