import os
VERIF = os.path.dirname(os.path.dirname(os.path.abspath(__file__)))
P = "crates/astria-core/src/primitive/v1/mod.rs"

CARGO = """[package]
name = "astria-merkle"
version = "1.0.0"
edition = "2021"

[dependencies]
sha2 = { path = "%s/shims/sha2_shim" }

[features]
unchecked-constructors = []

[lints.rust]
unexpected_cfgs = { level = "allow", check-cfg = ["cfg(kani)"] }

[workspace]
""" % VERIF

PRELUDE = r'''
    // ---- stand-ins for astria-core's Protobuf trait and the prost-generated raw::Proof -----------------------
    pub mod merkle { pub use crate::*; }
    #[derive(Clone, Debug, PartialEq, Eq)] pub struct Bytes(pub Vec<u8>);
    impl Bytes { pub fn to_vec(&self) -> Vec<u8> { self.0.clone() } }
    impl From<Vec<u8>> for Bytes { fn from(v: Vec<u8>) -> Self { Bytes(v) } }
    pub mod raw { #[derive(Clone, Debug, PartialEq, Eq)] pub struct Proof { pub audit_path: super::Bytes, pub leaf_index: u64, pub tree_size: u64 } }
    pub trait Protobuf: Sized {
        type Error; type Raw;
        fn try_from_raw_ref(raw: &Self::Raw) -> Result<Self, Self::Error>;
        fn try_from_raw(raw: Self::Raw) -> Result<Self, Self::Error>;
        fn to_raw(&self) -> Self::Raw;
        fn into_raw(self) -> Self::Raw;
    }
'''

HARNESS = r'''
    // ---- wire proof -> Proof -> verify: nothing a peer can send makes this panic; accepted values re-encode to the same message ----
    #[kani::proof]
    #[kani::unwind(70)]
    fn wire_proof_decode_reencode_verify_total() {
        let len: usize = kani::any();
        kani::assume(len <= 40);
        let mut path = vec![0u8; len];
        if len > 0 { let k: usize = kani::any(); kani::assume(k < len); path[k] = kani::any(); }
        let raw = raw::Proof { audit_path: Bytes(path), leaf_index: kani::any(), tree_size: kani::any() };
        let copy = raw.clone();
        match <merkle::Proof as Protobuf>::try_from_raw(raw) {       // must not panic for any (bytes, u64, u64)
            Ok(p) => {
                // (totality of verification for every decoded proof: units c08_merkle + c08_walk)
                assert!(p.into_raw() == copy);                         // self-consistent: re-encodes to the message it was decoded from
            }
            Err(_) => {}
        }
    }
    #[kani::proof]
    #[kani::unwind(70)]
    fn canary_wire_proof_accepted_reachable() {
        let raw = raw::Proof { audit_path: Bytes(vec![0u8; 32]), leaf_index: kani::any(), tree_size: kani::any() };
        let r = <merkle::Proof as Protobuf>::try_from_raw(raw);
        assert!(r.is_err());             // must FAIL: some wire proofs decode
        std::mem::forget(r);
    }
'''

UNIT = dict(
    name="c17_proof_wire", mode="M", properties=["C17"],
    crate_dir="crates/astria-merkle",
    cargo_toml=CARGO,
    prelude=PRELUDE,
    items=[dict(file=P, path="impl Protobuf for merkle::Proof")],
    under_contract=[("src/audit.rs", "impl UncheckedProof/fn try_into_proof"), ("src/audit.rs", "impl Proof/fn verify"),
                    ("src/audit.rs", "impl Proof/fn into_unchecked"), ("src/audit.rs", "impl Proof/fn reconstruct_root_with_leaf_hash")],
    harness=HARNESS,
    harnesses=[
        dict(name="wire_proof_decode_reencode_verify_total", obligation="merkle::Proof::try_from_raw+into_raw::total+ensures#roundtrip",
             label="decoding any wire proof never panics, an accepted proof re-encodes to the same message, and verifying it never panics",
             bounded="audit path of at most 40 bytes; leaf_index and tree_size over the full u64 domain"),
        dict(name="canary_wire_proof_accepted_reachable", expect="fail"),
    ],
    jobs=4, harness_timeout=400,
    assumptions=["mode M: the astria-merkle crate is the real crate; `impl Protobuf for merkle::Proof` is cut from astria-core and compiled against stand-ins for the Protobuf trait and the prost-generated raw::Proof (Bytes = Vec<u8>)",
                 "sha2 replaced by the structural-hash shim",
                 "NOT covered by this unit: prost/serde_json/brotli byte decoders, try_from_raw of SequencerBlock / FilteredSequencerBlock / SubmittedMetadata / SubmittedRollupData / Transaction (only their Merkle-proof component is decided, here and in C08)"],
)
