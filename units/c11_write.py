F = "crates/astria-sequencer-relayer/src/relayer/write/mod.rs"

PRELUDE = r'''
use std::sync::Arc;
use crate::eyre::{Report, WrapErr as _};
impl std::fmt::Display for eyre::Report { fn fmt(&self, _f: &mut std::fmt::Formatter<'_>) -> std::fmt::Result { Ok(()) } }
impl std::error::Error for eyre::Report {}
#[derive(Clone, Copy, Debug, PartialEq, Eq, PartialOrd, Ord)] pub struct SequencerHeight(pub u64);
impl SequencerHeight { pub fn value(&self) -> u64 { self.0 } }
#[derive(Clone, Copy, Debug, PartialEq, Eq)] pub struct BlobTxHash(pub u8);
impl BlobTxHash { pub fn compute(tx: &BlobTx) -> Self { BlobTxHash(tx.0) } }      // injective on the 8-bit transaction stand-in
impl std::fmt::Display for BlobTxHash { fn fmt(&self, _f: &mut std::fmt::Formatter<'_>) -> std::fmt::Result { Ok(()) } }
#[derive(Clone, Copy, Debug, PartialEq, Eq)] pub struct BlobTx(pub u8);
#[derive(Clone, Copy, Debug, PartialEq, Eq)] pub struct Blob;
#[derive(Clone, Copy, Debug, PartialEq, Eq)] pub struct Vec<T>(pub std::marker::PhantomData<T>);
#[derive(Clone, Copy, Debug, PartialEq, Eq)] pub struct Duration;
pub struct BlobTxAndFee { pub tx: BlobTx, pub fee: u64 }
#[derive(Clone, Copy, Debug, PartialEq, Eq)] pub struct GrpcResponseError { pub timeout: bool }
impl GrpcResponseError { pub fn is_timeout(&self) -> bool { self.timeout } }
#[derive(Clone, Copy, Debug, PartialEq, Eq)] pub enum TrySubmitError { FailedToBroadcastTx(GrpcResponseError), Other }

// ---- the log of everything observable outside the process: durable state-file contents and Celestia RPCs, in order -------------
#[derive(Clone, Copy, Debug, PartialEq, Eq, Default)]
pub enum Ev { #[default] None, PreparedDurable { h: u64, hash: u8 }, StartedDurable { h: u64, celestia: u64 }, RevertedDurable { h: u64 }, Confirm { hash: u8, found: bool }, Prepare, Broadcast { hash: u8, ok: bool } }
pub const NEV: usize = 8;
pub static mut LOG: [Ev; NEV] = [Ev::None; NEV];
pub static mut NLOG: usize = 0;
pub fn log_ev(e: Ev) { unsafe { assert!(NLOG < NEV, "event log capacity"); LOG[NLOG] = e; NLOG += 1; } }

// ---- submission-state stand-ins: the contracts proved on the real text in unit c11_submission ------------------------------------
#[derive(Clone, Copy, Debug, PartialEq, Eq)] pub struct CompletedSubmission { pub celestia_height: u64, pub sequencer_height: SequencerHeight }
#[derive(Clone, Copy, Debug, PartialEq, Eq)] pub struct StartedSubmission { pub last_submission: CompletedSubmission }
#[derive(Clone, Copy, Debug, PartialEq, Eq)] pub struct PreparedSubmission { pub sequencer_height: SequencerHeight, pub last_submission: CompletedSubmission, pub blob_tx_hash: BlobTxHash }
impl StartedSubmission {
    pub fn last_submission_celestia_height(&self) -> u64 { self.last_submission.celestia_height }
    pub fn last_submission_sequencer_height(&self) -> SequencerHeight { self.last_submission.sequencer_height }
    /// contract (c11_submission): Ok => height beyond the confirmed one, Prepared record durable before return, last_submission carried over; Err => file unchanged
    pub fn into_prepared(self, new_sequencer_height: SequencerHeight, blob_tx_hash: BlobTxHash) -> eyre::Result<PreparedSubmission> {
        if !(new_sequencer_height > self.last_submission.sequencer_height) || kani::any() { return Err(Report::new()); }
        log_ev(Ev::PreparedDurable { h: new_sequencer_height.0, hash: blob_tx_hash.0 });
        Ok(PreparedSubmission { sequencer_height: new_sequencer_height, last_submission: self.last_submission, blob_tx_hash })
    }
}
impl PreparedSubmission {
    pub fn blob_tx_hash(&self) -> &BlobTxHash { &self.blob_tx_hash }
    pub fn confirmation_timeout(&self) -> Duration { Duration }
    pub fn into_started(self, celestia_height: u64) -> eyre::Result<StartedSubmission> {
        if kani::any() { return Err(Report::new()); }
        log_ev(Ev::StartedDurable { h: self.sequencer_height.0, celestia: celestia_height });
        Ok(StartedSubmission { last_submission: CompletedSubmission { celestia_height, sequencer_height: self.sequencer_height } })
    }
    pub fn revert(self) -> eyre::Result<StartedSubmission> {
        if kani::any() { return Err(Report::new()); }
        log_ev(Ev::RevertedDurable { h: self.last_submission.sequencer_height.0 });
        Ok(StartedSubmission { last_submission: self.last_submission })
    }
}
// ---- Celestia client stand-in: every RPC has an arbitrary outcome and is logged -------------------------------------------------------
#[derive(Clone, Copy, Debug)] pub struct CelestiaClient;
impl CelestiaClient {
    pub fn confirm_submission_with_timeout(&mut self, hash: &BlobTxHash, _t: Duration) -> Option<u64> {
        let r: Option<u64> = if kani::any() { Some(kani::any()) } else { None };
        log_ev(Ev::Confirm { hash: hash.0, found: r.is_some() }); r
    }
    pub fn try_prepare(&mut self, _blobs: Arc<Vec<Blob>>, _last: Option<TrySubmitError>) -> Result<BlobTxAndFee, Box<TrySubmitError>> {
        log_ev(Ev::Prepare);
        if kani::any() { Err(Box::new(TrySubmitError::Other)) } else { Ok(BlobTxAndFee { tx: BlobTx(kani::any()), fee: kani::any() }) }
    }
    pub fn try_submit(&mut self, hash: BlobTxHash, tx: BlobTx) -> Result<u64, Box<TrySubmitError>> {
        assert!(BlobTxHash::compute(&tx) == hash);
        let r: Result<u64, Box<TrySubmitError>> = if kani::any() { Ok(kani::any()) } else if kani::any() { Err(Box::new(TrySubmitError::FailedToBroadcastTx(GrpcResponseError { timeout: kani::any() }))) } else { Err(Box::new(TrySubmitError::Other)) };
        log_ev(Ev::Broadcast { hash: hash.0, ok: r.is_ok() }); r
    }
}
pub mod watch { pub struct Receiver<T>(pub T); impl<T> Receiver<T> { pub fn borrow(&self) -> &T { &self.0 } } }
pub struct Metrics;
impl Metrics { pub fn absolute_set_sequencer_submission_height(&self, _h: u64) {} pub fn absolute_set_celestia_submission_height(&self, _h: u64) {} }
pub static METRICS: Metrics = Metrics;
pub struct RelayerState; impl RelayerState { pub fn set_latest_confirmed_celestia_height(&self, _h: u64) {} }
'''

HARNESS = r'''
    fn reset() { unsafe { NLOG = 0; LOG = [Ev::None; NEV]; } }
    fn ev(i: usize) -> Ev { unsafe { LOG[i] } }
    fn nlog() -> usize { unsafe { NLOG } }
    fn any_started() -> StartedSubmission { StartedSubmission { last_submission: CompletedSubmission { celestia_height: kani::any(), sequencer_height: SequencerHeight(kani::any()) } } }
    fn count(pred: fn(&Ev) -> bool) -> usize { let mut c = 0; let mut i = 0; while i < nlog() { let e = ev(i); if pred(&e) { c += 1; } i += 1; } c }
    fn idx(pred: fn(&Ev) -> bool) -> usize { let mut i = 0; while i < nlog() { let e = ev(i); if pred(&e) { return i; } i += 1; } NEV }
    fn is_prepared(e: &Ev) -> bool { matches!(e, Ev::PreparedDurable { .. }) }
    fn is_started(e: &Ev) -> bool { matches!(e, Ev::StartedDurable { .. }) }
    fn is_reverted(e: &Ev) -> bool { matches!(e, Ev::RevertedDurable { .. }) }
    fn is_broadcast(e: &Ev) -> bool { matches!(e, Ev::Broadcast { .. }) }
    fn is_confirm(e: &Ev) -> bool { matches!(e, Ev::Confirm { .. }) }

    // ---- try_submit, fresh attempt (no earlier error, or an earlier non-timeout error): prepared is durable BEFORE the broadcast, started only AFTER an Ok broadcast ----
    #[kani::proof]
    #[kani::unwind(10)]
    #[kani::stub(alloc::fmt::format, crate::vx_stub_format)]
    fn try_submit_fresh_attempt_orders_durable_writes_around_the_broadcast() {
        reset();
        let started = any_started();
        let largest = SequencerHeight(kani::any());
        let last: Option<SubmissionError> = if kani::any() { None } else { Some(SubmissionError::TrySubmit(TrySubmitError::Other)) };
        let r = try_submit(CelestiaClient, Arc::new(Vec(std::marker::PhantomData)), started, largest, watch::Receiver(last));
        assert!(count(is_confirm) == 0 && count(is_reverted) == 0);
        assert!(count(is_broadcast) <= 1 && count(is_prepared) <= 1 && count(is_started) <= 1);
        if count(is_broadcast) == 1 {
            // the Prepared record naming this very transaction and height is on disk before the transaction leaves the process
            let b = idx(is_broadcast); let p = idx(is_prepared);
            assert!(p < b);
            if let (Ev::PreparedDurable { h, hash }, Ev::Broadcast { hash: bh, .. }) = (ev(p), ev(b)) { assert!(h == largest.0 && hash == bh && largest > started.last_submission.sequencer_height); } else { assert!(false); }
        }
        if count(is_started) == 1 {
            // "submitted up to h" is recorded only after Celestia accepted the transaction, with the height it reported
            let s = idx(is_started); let b = idx(is_broadcast);
            assert!(b < s);
            assert!(matches!(ev(b), Ev::Broadcast { ok: true, .. }));
            if let Ev::StartedDurable { h, .. } = ev(s) { assert!(h == largest.0); }
        }
        match &r {
            Ok(x) => { assert!(count(is_started) == 1 && x.new_state.last_submission.sequencer_height == largest); }
            Err(SubmissionError::BroadcastTxTimedOut(p)) => {
                // outcome unknown: the state stays Prepared and the prepared record travels with the error so that the next attempt confirms first
                assert!(count(is_started) == 0 && count(is_broadcast) == 1 && p.sequencer_height == largest && p.last_submission == started.last_submission);
                if let Ev::Broadcast { hash, .. } = ev(idx(is_broadcast)) { assert!(p.blob_tx_hash.0 == hash); }
            }
            Err(SubmissionError::Unrecoverable(_)) => {}
            Err(SubmissionError::TrySubmit(_)) => { assert!(count(is_started) == 0); }
        }
        if count(is_prepared) == 0 { assert!(count(is_broadcast) == 0); }     // failing to make the record durable stops the attempt
        std::mem::forget(r);
    }

    // ---- try_submit after a broadcast time-out: confirm first; a confirmed transaction is recorded and NOT sent again -----------------
    #[kani::proof]
    #[kani::unwind(10)]
    #[kani::stub(alloc::fmt::format, crate::vx_stub_format)]
    fn try_submit_after_timeout_confirms_before_anything_else() {
        reset();
        let started = any_started();
        let largest = SequencerHeight(kani::any());
        let prev = PreparedSubmission { sequencer_height: largest, last_submission: started.last_submission, blob_tx_hash: BlobTxHash(kani::any()) };
        let r = try_submit(CelestiaClient, Arc::new(Vec(std::marker::PhantomData)), started, largest, watch::Receiver(Some(SubmissionError::BroadcastTxTimedOut(prev))));
        assert!(nlog() >= 1);
        match ev(0) {
            Ev::Confirm { hash, found } => {
                assert!(hash == prev.blob_tx_hash.0);
                if found {
                    // exactly: record the in-flight height as submitted (or fail unrecoverably); never a second broadcast of the same heights
                    assert!(count(is_broadcast) == 0 && count(is_prepared) == 0);
                    match &r { Ok(x) => { assert!(nlog() == 2 && matches!(ev(1), Ev::StartedDurable { h, .. } if h == prev.sequencer_height.0)); assert!(x.new_state.last_submission.sequencer_height == prev.sequencer_height); }
                               Err(SubmissionError::Unrecoverable(_)) => assert!(nlog() == 1),
                               Err(_) => assert!(false) }
                } else if count(is_started) == 1 {
                    // not found: a new attempt, again prepared-before-broadcast and started-after-Ok
                    let s = idx(is_started); let b = idx(is_broadcast); let p = idx(is_prepared);
                    assert!(p < b && b < s && matches!(ev(b), Ev::Broadcast { ok: true, .. }));
                }
            }
            _ => assert!(false),
        }
        assert!(count(is_reverted) == 0);
        std::mem::forget(r);
    }

    // ---- start-up with a Prepared record: confirmed => started at the in-flight height; not confirmed => revert; never both, never neither on Ok ----
    #[kani::proof]
    #[kani::unwind(10)]
    #[kani::stub(alloc::fmt::format, crate::vx_stub_format)]
    fn startup_confirm_or_revert() {
        reset();
        let prev = PreparedSubmission { sequencer_height: SequencerHeight(kani::any()), last_submission: any_started().last_submission, blob_tx_hash: BlobTxHash(kani::any()) };
        let r = try_confirm_submission_from_last_session(CelestiaClient, prev, Arc::new(RelayerState), &METRICS);
        assert!(nlog() >= 1 && count(is_broadcast) == 0 && count(is_prepared) == 0);
        match ev(0) {
            Ev::Confirm { hash, found } => {
                assert!(hash == prev.blob_tx_hash.0);
                match r {
                    Ok(s) => {
                        assert!(nlog() == 2);
                        if found { assert!(matches!(ev(1), Ev::StartedDurable { h, .. } if h == prev.sequencer_height.0) && s.last_submission.sequencer_height == prev.sequencer_height); }
                        else { assert!(matches!(ev(1), Ev::RevertedDurable { h } if h == prev.last_submission.sequencer_height.0) && s.last_submission == prev.last_submission); }
                    }
                    Err(_) => assert!(nlog() == 1),          // the durable record is still the Prepared one
                }
            }
            _ => assert!(false),
        }
    }

    #[kani::proof]
    #[kani::unwind(10)]
    #[kani::stub(alloc::fmt::format, crate::vx_stub_format)]
    fn canary_try_submit_full_success_reachable() {
        reset();
        let r = try_submit(CelestiaClient, Arc::new(Vec(std::marker::PhantomData)), any_started(), SequencerHeight(kani::any()), watch::Receiver(None));
        assert!(!(r.is_ok() && nlog() == 4));     // must FAIL: Prepare, PreparedDurable, Broadcast(ok), StartedDurable
        std::mem::forget(r);
    }
'''

UNIT = dict(
    name="c11_write", mode="K", properties=["C11"],
    shim_files=["shims/common.rs"],
    prelude=PRELUDE,
    items=[
        dict(file=F, path="struct StartedSubmissionAndFee"),
        dict(file=F, path="enum SubmissionError", keep_derives={"Clone", "Debug"}),
        dict(file=F, path="impl From<Box<TrySubmitError>> for SubmissionError"),
        dict(file=F, path="fn try_submit"),
        dict(file=F, path="fn try_confirm_submission_from_failed_attempt"),
        dict(file=F, path="fn try_confirm_submission_from_last_session",
             rewrites=[dict(rule="subst", id="relayer-state-type", old="Arc<super::State>", new="Arc<RelayerState>", count=1)]),
    ],
    harness=HARNESS,
    harnesses=[
        dict(name="try_submit_fresh_attempt_orders_durable_writes_around_the_broadcast", obligation="write::try_submit::ensures#prepared-durable-before-broadcast+started-only-after-Ok-broadcast+timeout-keeps-prepared"),
        dict(name="try_submit_after_timeout_confirms_before_anything_else", obligation="write::try_submit::ensures#after-timeout-confirm-first+confirmed-is-recorded-not-resent"),
        dict(name="startup_confirm_or_revert", obligation="write::try_confirm_submission_from_last_session::ensures#confirmed=>started-at-in-flight-height/else-revert"),
        dict(name="canary_try_submit_full_success_reachable", expect="fail"),
    ],
    assumptions=["StartedSubmission/PreparedSubmission are stand-ins implementing the contracts proved on the real text in unit c11_submission (durable write before return, all-or-nothing); every transition may fail",
                 "CelestiaClient RPCs have arbitrary outcomes (lost, pending, confirmed, timed out) and are logged; BlobTxHash::compute is injective on the transaction stand-in",
                 "NOT under contract: BlobSubmitter::run (tokio select loop that wires the start-up confirmation before the first submission and has at most one submission in flight), submit_with_retry's tryhard plumbing (the error of attempt n is what attempt n+1 reads), the no-gap induction over restarts"],
)
