A = "crates/astria-merkle/src/audit.rs"
L = "crates/astria-merkle/src/lib.rs"

PRELUDE = r'''
global size_of usize == 8;

// ---- shim environment -------------------------------------------------------------------------
pub struct NonZeroUsize { pub v: usize }
impl NonZeroUsize {
    #[verifier::external_body]
    pub fn get(&self) -> (r: usize) ensures r == self.v { unimplemented!() }
}

pub spec const MAXN: usize = (usize::MAX / 2) as usize;

/// number of steps from tree index i to the root of the tree with n nodes.
/// Kani side: vx_harness::spec_depth (unit c08_merkle); the two contracts below are the ones
/// discharged there on the real functions (obligations complete_parent::contract#rem-decreases and
/// try_into_proof::total+ensures#accepts-exactly-well-formed).
pub uninterp spec fn rem(i: usize, n: usize) -> nat;
pub uninterp spec fn spec_parent(i: usize, n: usize) -> usize;
/// SHA-256(0x01 ‖ l ‖ r)
pub uninterp spec fn spec_combine(l: Seq<u8>, r: Seq<u8>) -> Seq<u8>;

#[verifier::external_body]
pub fn complete_parent(i: usize, n: usize) -> (p: usize)
    requires i < n, n <= MAXN, rem(i, n) > 0,
    ensures p < n, p == spec_parent(i, n), rem(p, n) == rem(i, n) - 1,
{ unimplemented!() }

/// imported (Kani: complete_root_spec + spec_depth_decreases_along_parent): the root is the one index with no steps left
#[verifier::external_body]
pub fn complete_root(n: usize) -> (r: usize)
    requires 1 <= n <= MAXN,
    ensures r < n, forall|i: usize| i < n ==> ((i == r) <==> (#[trigger] rem(i, n) == 0)),
{ unimplemented!() }

/// imported (Kani: audit_path_len_spec): number of steps from tree index i to the root, None outside the domain
#[verifier::external_body]
pub fn audit_path_len(i: usize, n: usize) -> (r: Option<usize>)
    ensures (n <= MAXN && i < n) ==> r == Some(rem(i, n) as usize) && rem(i, n) <= usize::MAX,
            !(n <= MAXN && i < n) ==> r is None,
{ unimplemented!() }

#[verifier::external_body]
pub fn combine(left: &[u8], right: &[u8]) -> (r: [u8; 32])
    ensures r@ == spec_combine(left@, right@),
{ unimplemented!() }

// specified stand-ins for `slice.chunks(n)` (rule R8.chunks): chunk k is bytes [k*n, min((k+1)*n, len))
pub open spec fn chunk_count(len: int, n: int) -> int { if len % n == 0 { len / n } else { len / n + 1 } }
#[verifier::external_body]
pub fn vx_chunk_count(v: &Vec<u8>, n: usize) -> (r: usize)
    requires n > 0,
    ensures r as int == chunk_count(v@.len() as int, n as int),
{ unimplemented!() }
#[verifier::external_body]
pub fn vx_chunk(v: &Vec<u8>, n: usize, k: usize) -> (r: &[u8])
    requires n > 0, (k as int) < chunk_count(v@.len() as int, n as int),
    ensures r@ == v@.subrange(k as int * n as int, if (k as int + 1) * (n as int) <= v@.len() { (k as int + 1) * n as int } else { v@.len() as int }),
{ unimplemented!() }

// R13: `==` on Option<usize> / [u8; 32] (PartialEq of std types) through specified stand-ins
#[verifier::external_body]
pub fn vx_opt_eq(a: Option<usize>, b: Option<usize>) -> (r: bool) ensures r == (a == b) { unimplemented!() }
#[verifier::external_body]
pub fn vx_arr_eq(a: &[u8; 32], b: &[u8; 32]) -> (r: bool) ensures r == (a@ == b@) { unimplemented!() }

// ---- the RFC 6962 audit-path fold ------------------------------------------------------------------
pub open spec fn walk_idx(k: nat, i0: usize, n: usize) -> usize
    decreases k
{ if k == 0 { i0 } else { spec_parent(walk_idx((k - 1) as nat, i0, n), n) } }

pub open spec fn walk_acc(path: Seq<u8>, k: nat, i0: usize, n: usize, leaf: Seq<u8>) -> Seq<u8>
    decreases k
{
    if k == 0 { leaf } else {
        let a = walk_acc(path, (k - 1) as nat, i0, n, leaf);
        let i = walk_idx((k - 1) as nat, i0, n);
        let s = path.subrange(32 * (k - 1) as int, 32 * k as int);
        if spec_parent(i, n) > i { spec_combine(a, s) } else { spec_combine(s, a) }
    }
}

impl Proof {
    /// what UncheckedProof::try_into_proof guarantees for every accepted proof (Kani obligation
    /// try_into_proof::total+ensures#accepts-exactly-well-formed)
    pub open spec fn wf(&self) -> bool {
        &&& 1 <= self.tree_size.v <= MAXN
        &&& 2 * self.leaf_index < self.tree_size.v
        &&& self.audit_path@.len() % 32 == 0
    }
    pub open spec fn depth(&self) -> nat { rem((2 * self.leaf_index) as usize, self.tree_size.v) }
    pub open spec fn steps(&self) -> nat { if (self.audit_path@.len() / 32) as nat <= self.depth() { (self.audit_path@.len() / 32) as nat } else { self.depth() } }
    /// the RFC 6962 reconstruction of the root from this proof and a leaf hash
    pub open spec fn fold(&self, leaf_hash: Seq<u8>) -> Seq<u8> {
        walk_acc(self.audit_path@, self.steps(), (2 * self.leaf_index) as usize, self.tree_size.v, leaf_hash)
    }
}
'''

LEMMAS = r'''
// ---- soundness: a proof verifies only for the leaf and path it was built for ---------------------------
// H-inj: SHA-256 (with the 0x01 prefix) is injective on pairs of 32-byte strings. This is the
// collision-resistance assumption, stated once, here.
pub open spec fn h_inj() -> bool {
    forall|a: Seq<u8>, b: Seq<u8>, c: Seq<u8>, d: Seq<u8>|
        a.len() == 32 && b.len() == 32 && c.len() == 32 && d.len() == 32 && #[trigger] spec_combine(a, b) == #[trigger] spec_combine(c, d)
            ==> a == c && b == d
}
pub open spec fn out_len_32() -> bool {
    forall|a: Seq<u8>, b: Seq<u8>| (#[trigger] spec_combine(a, b)).len() == 32
}

pub proof fn lemma_walk_len(path: Seq<u8>, k: nat, i0: usize, n: usize, leaf: Seq<u8>)
    requires out_len_32(), leaf.len() == 32,
    ensures walk_acc(path, k, i0, n, leaf).len() == 32
    decreases k
{
    if k > 0 { lemma_walk_len(path, (k - 1) as nat, i0, n, leaf); }
}

/// Two reconstructions over the same (leaf index, tree size) that agree on the root agree on the leaf
/// hash and on every path element: changing the leaf or any path element changes the reconstructed root.
pub proof fn lemma_walk_injective(p1: Seq<u8>, p2: Seq<u8>, k: nat, i0: usize, n: usize, l1: Seq<u8>, l2: Seq<u8>)
    requires
        h_inj(), out_len_32(), l1.len() == 32, l2.len() == 32,
        p1.len() >= 32 * k, p2.len() >= 32 * k,
        walk_acc(p1, k, i0, n, l1) == walk_acc(p2, k, i0, n, l2),
    ensures
        l1 == l2,
        p1.subrange(0, 32 * k as int) == p2.subrange(0, 32 * k as int),
    decreases k
{
    if k > 0 {
        let km = (k - 1) as nat;
        let a1 = walk_acc(p1, km, i0, n, l1);
        let a2 = walk_acc(p2, km, i0, n, l2);
        let s1 = p1.subrange(32 * km as int, 32 * k as int);
        let s2 = p2.subrange(32 * km as int, 32 * k as int);
        lemma_walk_len(p1, km, i0, n, l1);
        lemma_walk_len(p2, km, i0, n, l2);
        let i = walk_idx(km, i0, n);
        if spec_parent(i, n) > i {
            assert(spec_combine(a1, s1) == spec_combine(a2, s2));
        } else {
            assert(spec_combine(s1, a1) == spec_combine(s2, a2));
        }
        assert(a1 == a2 && s1 == s2);
        lemma_walk_injective(p1, p2, km, i0, n, l1, l2);
        assert(p1.subrange(0, 32 * k as int) =~= p1.subrange(0, 32 * km as int) + s1);
        assert(p2.subrange(0, 32 * k as int) =~= p2.subrange(0, 32 * km as int) + s2);
    } else {
        assert(p1.subrange(0, 0) =~= p2.subrange(0, 0));
    }
}
'''

UNIT = dict(
    name="c08_walk", mode="V", properties=["C08"],
    prelude=PRELUDE, lemmas=LEMMAS,
    items=[
        dict(file=A, path="struct Proof", keep_derives=set()),
        dict(file=L, path="fn leaf_index_to_tree_index", spec="""
    requires j <= usize::MAX / 2,
    ensures ret == 2 * j,
"""),
        dict(file=A, path="impl Proof/fn len", spec="    ensures ret == self.audit_path@.len() / 32,\n", no_canary=True),
        dict(file=A, path="impl Proof/fn has_complete_audit_path",
             rewrites=[dict(rule="subst", id="R7.crate_path", old="crate::audit_path_len(", new="audit_path_len("),
                       dict(rule="regex", id="R13.option_eq", old=r"audit_path_len\(([^;]*?)\)\s*==\s*Some\(self\.len\(\)\)", new=r"vx_opt_eq(audit_path_len(\1), Some(self.len()))", count=1)],
             spec="""
    requires self.wf(),
    ensures ret == (self.audit_path@.len() / 32 == self.depth()),
"""),
        dict(file=A, path="impl Proof/fn reconstruct_root_with_leaf_hash",
             rewrites=["R8.chunks"],
             loops={0: """
    invariant
        n_ == tree_size.v, i0_ == (2 * *leaf_index) as usize, d_ == rem(i0_, n_), k_ == audit_path@.len() / 32,
        1 <= n_ <= MAXN, audit_path@.len() == 32 * k_,
        vx_c0 <= k_, root < n_, forall|j: usize| j < n_ ==> ((j == root) <==> (#[trigger] rem(j, n_) == 0)),
        st_ == (if vx_c0 as nat <= d_ { vx_c0 as nat } else { d_ }),
        i < n_, i == walk_idx(st_, i0_, n_), rem(i, n_) == d_ - st_,
        acc@ == walk_acc(audit_path@, st_, i0_, n_, leaf_hash@),
    decreases k_ - vx_c0,
"""},
             ghost=[("before", "let mut vx_c0: usize = 0;",
                     "let ghost n_ = tree_size.v; let ghost i0_ = (2 * *leaf_index) as usize; let ghost d_ = rem(i0_, n_); let ghost k_ = (audit_path@.len() / 32) as nat; let ghost mut st_: nat = 0;\n"
                     "proof { assert(chunk_count(32 * k_ as int, 32) == k_ as int) by (nonlinear_arith); }"),
                    ("after", "vx_c0 += 1;",
                     "proof { assert((vx_c0 as int - 1) * 32 + 32 == vx_c0 as int * 32) by (nonlinear_arith); assert(vx_c0 as int * 32 <= 32 * k_ as int) by (nonlinear_arith) requires vx_c0 <= k_; }"),
                    ("after", "i = parent;", "proof { st_ = st_ + 1; }")],
             spec="""
    requires self.wf(),
    ensures
        // total for every decodable proof (no panic, terminates), and exactly the RFC 6962 fold over the
        // first min(len, depth) path elements
        ret@ == self.fold(leaf_hash@),
"""),
        dict(file=A, path="struct NoLeafHash"),
        dict(file=A, path="struct NoRoot"),
        dict(file=A, path="struct WithLeafHash"),
        dict(file=A, path="struct WithRoot"),
        dict(file=A, path="struct Audit"),
        dict(file=A, path="impl Audit<'_, WithLeafHash, WithRoot>/fn perform",
             rewrites=[dict(rule="regex", id="R13.array_eq", old=r"\*root\s*==\s*proof\.reconstruct_root_with_leaf_hash\(\*leaf_hash\)", new="vx_arr_eq(root, &proof.reconstruct_root_with_leaf_hash(*leaf_hash))", count=1)],
             spec="""
    requires self.proof.wf(),
    ensures
        // verification: true exactly when the path has one element per step to the root AND the fold equals the claimed root
        ret == (self.proof.audit_path@.len() / 32 == self.proof.depth() && self.root.root@ == self.proof.fold(self.leaf_hash.leaf_hash@)),
"""),
    ],
    assumptions=[
        "imported contract (proved by Kani on the real function, unit c08_merkle obligation complete_parent::contract#rem-decreases): complete_parent(i,n) for i<n<=MAX/2, rem(i,n)>0 returns p<n with rem(p,n) == rem(i,n)-1",
        "imported contract (proved by Kani, unit c08_merkle obligation try_into_proof::total+ensures#accepts-exactly-well-formed): every accepted proof satisfies Proof::wf (1 <= tree_size <= MAX/2, 2*leaf_index < tree_size, path length multiple of 32)",
        "imported contracts (proved by Kani, unit c08_merkle): complete_root(n) is the unique index with rem == 0 (complete_root_spec + spec_depth_decreases_along_parent); audit_path_len(i,n) == Some(rem(i,n)) on the domain (audit_path_len_spec)",
        "R13: == on Option<usize> and [u8;32] replaced by specified stand-ins",
        "combine(l,r) is the uninterpreted function spec_combine; H-inj (injectivity = SHA-256 collision resistance) is a hypothesis of the soundness lemma, never an axiom of the unit",
        "R8.chunks: slice::chunks(32) replaced by the specified stand-ins vx_chunk_count/vx_chunk",
        "NonZeroUsize shim (get returns the stored value)",
        "global size_of usize == 8",
    ],
)
