BC = "crates/astria-conductor/src/block_cache.rs"
EX = "crates/astria-conductor/src/executor/mod.rs"
ST = "crates/astria-conductor/src/state.rs"
XV = "crates/astria-core/src/execution/v2/mod.rs"

PRELUDE = r'''
pub const MCAP: usize = 3;   // capacity of the map stand-in: the cache holds at most 3 blocks in this unit's harnesses
#[derive(Clone, Copy, Debug, PartialEq, Eq, PartialOrd, Ord)]
pub struct Height(pub u64);
impl Height { pub fn value(&self) -> u64 { self.0 } }
pub type SequencerHeight = Height;
impl TryFrom<u64> for Height { type Error = (); fn try_from(v: u64) -> Result<Self, ()> { if v <= i64::MAX as u64 { Ok(Height(v)) } else { Err(()) } } }
impl std::fmt::Display for Height { fn fmt(&self, _f: &mut std::fmt::Formatter<'_>) -> std::fmt::Result { Ok(()) } }

/// ordered map stand-in for std::collections::BTreeMap<u64, T> (API subset used by BlockCache)
#[derive(Debug, Clone, Copy)]
pub struct BTreeMap<K, V> { pub slots: [Option<(K, V)>; MCAP] }
pub enum Entry<'a, V> { Vacant(VacantEntry<'a, V>), Occupied(OccupiedEntry) }
pub struct VacantEntry<'a, V> { map: &'a mut BTreeMap<u64, V>, key: u64 }
pub struct OccupiedEntry;
impl<'a, V> VacantEntry<'a, V> {
    pub fn insert(self, v: V) {
        let mut v = Some(v);
        let mut i = 0;
        while i < MCAP { if v.is_some() && self.map.slots[i].is_none() { self.map.slots[i] = Some((self.key, v.take().unwrap())); } i += 1; }
        assert!(v.is_none(), "map stand-in capacity exceeded");
    }
}
impl<V> BTreeMap<u64, V> {
    pub fn new() -> Self { BTreeMap { slots: [None, None, None] } }
    pub fn get(&self, k: &u64) -> Option<&V> { let mut r = None; let mut i = 0; while i < MCAP { if let Some((kk, v)) = &self.slots[i] { if *kk == *k { r = Some(v); } } i += 1; } r }
    pub fn remove(&mut self, k: &u64) -> Option<V> {
        let mut r = None; let mut i = 0;
        while i < MCAP { let hit = match &self.slots[i] { Some((kk, _)) => *kk == *k, None => false }; if hit { r = self.slots[i].take().map(|e| e.1); } i += 1; }
        r
    }
    pub fn first_key_value(&self) -> Option<(&u64, &V)> {
        let mut best: Option<usize> = None; let mut i = 0;
        while i < MCAP { if let Some((kk, _)) = &self.slots[i] { match best { None => best = Some(i), Some(b) => if *kk < self.slots[b].as_ref().unwrap().0 { best = Some(i) } } } i += 1; }
        best.map(|b| { let e = self.slots[b].as_ref().unwrap(); (&e.0, &e.1) })
    }
    /// splits off everything at and after `k`, keeping the smaller keys in self
    pub fn split_off(&mut self, k: &u64) -> Self {
        let mut out = BTreeMap::new(); let mut i = 0;
        while i < MCAP { let hit = match &self.slots[i] { Some((kk, _)) => *kk >= *k, None => false }; if hit { out.slots[i] = self.slots[i].take(); } i += 1; }
        out
    }
    pub fn entry(&mut self, k: u64) -> Entry<'_, V> { if self.get(&k).is_some() { Entry::Occupied(OccupiedEntry) } else { Entry::Vacant(VacantEntry { map: self, key: k }) } }
    pub fn keys_distinct(&self) -> bool {
        let mut ok = true; let mut i = 0;
        while i < MCAP { let mut j = i + 1; while j < MCAP { if let (Some(a), Some(b)) = (&self.slots[i], &self.slots[j]) { if a.0 == b.0 { ok = false; } } j += 1; } i += 1; }
        ok
    }
}
pub mod std_shim { pub mod collections { pub mod btree_map { pub use crate::Entry; } } }

#[derive(Clone, Copy, Debug, PartialEq, Eq)] pub struct Blk { pub height: u64, pub id: u8 }
impl GetSequencerHeight for Blk { fn get_height(&self) -> Height { Height(self.height) } }
pub trait GetSequencerHeight { fn get_height(&self) -> Height; }

#[derive(Clone, Copy, Debug, PartialEq, Eq)] pub enum CommitLevel { SoftOnly, FirmOnly, SoftAndFirm }
pub struct StateSender { pub firm: u64, pub soft: u64 }
impl StateSender { pub fn firm_number(&self) -> u64 { self.firm } pub fn soft_number(&self) -> u64 { self.soft } }
#[derive(Clone, Copy, Debug, PartialEq, Eq)] pub struct ExecutedBlockMetadata { pub number: u64 }
impl ExecutedBlockMetadata { pub fn number(&self) -> u64 { self.number } }

// ---- astria-core execution::v2 stand-ins for CommitmentStateBuilder::build -------------------------------------------------------------------
#[derive(Clone, Copy, Debug, PartialEq, Eq)] pub struct CommitmentState { pub soft_executed_block_metadata: ExecutedBlockMetadata, pub firm_executed_block_metadata: ExecutedBlockMetadata, pub lowest_celestia_search_height: u64 }
pub struct NoFirm; pub struct NoSoft; pub struct NoBaseCelestiaHeight;
'''

HARNESS = r'''
    fn any_cache() -> BlockCache<Blk> {
        let mut inner = BTreeMap::new();
        let mut i = 0;
        while i < MCAP { if kani::any() { let h: u64 = kani::any(); inner.slots[i] = Some((h, Blk { height: h, id: kani::any() })); } i += 1; }
        let c = BlockCache { inner, next_height: kani::any() };
        // representation invariant: keys distinct, every stored block sits at its own height, nothing below next_height, next_height >= 1
        kani::assume(inv(&c));
        c
    }
    fn inv(c: &BlockCache<Blk>) -> bool {
        let mut ok = c.next_height >= 1 && c.next_height <= i64::MAX as u64 + 1 && c.inner.keys_distinct();   // heights are tendermint heights (<= i64::MAX)
        let mut i = 0;
        while i < MCAP { if let Some((k, b)) = c.inner.slots[i] { if k < c.next_height || b.height != k || k > i64::MAX as u64 { ok = false; } } i += 1; }
        ok
    }

    #[kani::proof]
    #[kani::unwind(5)]
    fn block_cache_pop_contract() {
        let mut c = any_cache();
        let before = c;
        let r = c.pop();
        match r {
            Some(b) => {
                // hands out exactly the block of the next expected height, once, then expects the following height
                assert!(b.height == before.next_height && before.inner.get(&before.next_height) == Some(&b));
                assert!(c.next_height == before.next_height + 1);
                assert!(c.inner.get(&before.next_height).is_none());
            }
            None => { assert!(before.inner.get(&before.next_height).is_none()); assert!(c.next_height == before.next_height); }
        }
        assert!(inv(&c));
        // frame: every other block stays
        let k: u64 = kani::any();
        if k != before.next_height { assert!(c.inner.get(&k) == before.inner.get(&k)); }
    }
    #[kani::proof]
    #[kani::unwind(5)]
    fn canary_block_cache_pop_some_reachable() {
        let mut c = any_cache();
        assert!(c.pop().is_none());       // must FAIL: the invariant admits caches holding the next block
    }
    #[kani::proof]
    #[kani::unwind(5)]
    fn block_cache_insert_contract() {
        let mut c = any_cache();
        let before = c;
        let b = Blk { height: kani::any(), id: kani::any() };
        kani::assume(b.height <= i64::MAX as u64);
        let free = { let mut f = false; let mut i = 0; while i < MCAP { if c.inner.slots[i].is_none() { f = true; } i += 1; } f };
        kani::assume(free);
        let r = c.insert(b);
        match r {
            Ok(()) => {
                assert!(b.height >= before.next_height && before.inner.get(&b.height).is_none());   // old and duplicate deliveries are never stored
                assert!(c.inner.get(&b.height) == Some(&b));
            }
            Err(_) => { assert!(b.height < before.next_height || before.inner.get(&b.height).is_some()); assert!(c.inner.get(&b.height) == before.inner.get(&b.height)); }
        }
        assert!(c.next_height == before.next_height && inv(&c));
        let k: u64 = kani::any();
        if k != b.height { assert!(c.inner.get(&k) == before.inner.get(&k)); }
    }
    #[kani::proof]
    #[kani::unwind(5)]
    fn block_cache_drop_obsolete_contract() {
        let mut c = any_cache();
        let before = c;
        let latest: u64 = kani::any();
        kani::assume(latest <= i64::MAX as u64);
        c.drop_obsolete(Height(latest));
        assert!(c.next_height >= before.next_height && c.next_height >= latest);   // never lowers the next height
        assert!(inv(&c));
        let k: u64 = kani::any();
        if k >= latest { assert!(c.inner.get(&k) == before.inner.get(&k)); } else { assert!(c.inner.get(&k).is_none()); }
    }

    #[kani::proof]
    fn firm_execution_decision() {
        let f: u64 = kani::any(); let s: u64 = kani::any();
        assert!(should_execute_firm_block(f, s, CommitLevel::FirmOnly));
        assert!(!should_execute_firm_block(f, s, CommitLevel::SoftOnly));
        assert!(should_execute_firm_block(f, s, CommitLevel::SoftAndFirm) == (f == s));   // a firm block is executed only if soft has not executed that height yet
    }
    #[kani::proof]
    fn block_response_contract() {
        let mut st = StateSender { firm: kani::any(), soft: kani::any() };
        let md = ExecutedBlockMetadata { number: kani::any() };
        let kind = if kani::any() { ExecutionKind::Firm } else { ExecutionKind::Soft };
        let cur = match kind { ExecutionKind::Firm => st.firm, ExecutionKind::Soft => st.soft };
        let r = does_block_response_fulfill_contract(&mut st, kind, &md);
        assert!(r.is_ok() == (cur < u64::MAX && md.number == cur + 1));   // the rollup must answer with exactly the next block number
    }
    #[kani::proof]
    #[kani::stub(alloc::fmt::format, crate::vx_stub_format)]
    fn height_mapping_is_inverse() {
        let s0: u64 = kani::any(); let r0: u64 = kani::any(); let n: u64 = kani::any();
        if let Ok(h) = map_rollup_number_to_sequencer_height(s0, r0, n) {
            assert!(h.0 as u128 + r0 as u128 == s0 as u128 + n as u128);          // exact, no wrap
            assert!(try_map_sequencer_height_to_rollup_height(s0, r0, h).ok() == Some(n) || r0 > n);
        }
        let h2 = Height(kani::any());
        if let Ok(m) = try_map_sequencer_height_to_rollup_height(s0, r0, h2) {
            assert!(m as u128 + s0 as u128 == h2.0 as u128 + r0 as u128);
        }
    }

    // ---- the only constructor of a CommitmentState refuses firm > soft and carries the three fields unchanged ----------------------------
    #[kani::proof]
    #[kani::unwind(5)]
    fn commitment_state_never_has_firm_above_soft() {
        let firm = ExecutedBlockMetadata { number: kani::any() }; let soft = ExecutedBlockMetadata { number: kani::any() }; let low: u64 = kani::any();
        let b = CommitmentStateBuilder { firm_executed_block_metadata: WithFirm(firm), soft_executed_block_metadata: WithSoft(soft), lowest_celestia_search_height: WithLowestCelestiaSearchHeight(low) };
        match b.build() {
            Ok(cs) => { assert!(firm.number <= soft.number); assert!(cs.firm_executed_block_metadata == firm && cs.soft_executed_block_metadata == soft && cs.lowest_celestia_search_height == low); }
            Err(_) => assert!(firm.number > soft.number),
        }
    }
'''

UNIT = dict(
    name="c10_conductor", mode="K", properties=["C10"],
    shim_files=["shims/common.rs"],
    prelude=PRELUDE,
    items=[
        dict(file=BC, path="struct BlockCache", keep_derives={"Debug"}, add_derive="Clone, Copy"),
        dict(file=BC, path="impl<T> BlockCache<T>/fn with_next_height"),
        dict(file=BC, path="impl<T> BlockCache<T>/fn pop"),
        dict(file=BC, path="impl<T> BlockCache<T>/fn drop_obsolete",
             rewrites=[dict(rule="subst", id="R4.std_cmp", old="std::cmp::max(", new="core::cmp::max(")]),
        dict(file=BC, path="impl<T: GetSequencerHeight> BlockCache<T>/fn insert",
             rewrites=[dict(rule="subst", id="R4.entry_path", old="use std::collections::btree_map::Entry;", new="use crate::Entry;")]),
        dict(file=BC, path="enum Error", keep_derives={"Debug"}),
        dict(file=EX, path="enum ExecutionKind", keep_derives={"Debug", "Clone", "Copy", "PartialEq", "Eq"}),
        dict(file=EX, path="enum ContractViolation", keep_derives={"Debug"}),
        dict(file=EX, path="fn does_block_response_fulfill_contract"),
        dict(file=EX, path="fn should_execute_firm_block"),
        dict(file=ST, path="fn map_rollup_number_to_sequencer_height"),
        dict(file=ST, path="fn try_map_sequencer_height_to_rollup_height"),
        dict(file=XV, path="struct FirmExceedsSoft", keep_derives={"Debug"}),
        dict(file=XV, path="struct WithFirm"), dict(file=XV, path="struct WithSoft"), dict(file=XV, path="struct WithLowestCelestiaSearchHeight"),
        dict(file=XV, path="struct CommitmentStateBuilder", keep_derives=set()),
        dict(file=XV, path="impl CommitmentStateBuilder<WithFirm, WithSoft, WithLowestCelestiaSearchHeight>/fn build"),
    ],
    harness=HARNESS,
    harnesses=[
        dict(name="block_cache_pop_contract", obligation="BlockCache::pop::ensures#yields-exactly-next-height-once+invariant+frame", bounded="cache holds at most 3 blocks (all contents symbolic)"),
        dict(name="canary_block_cache_pop_some_reachable", expect="fail"),
        dict(name="block_cache_insert_contract", obligation="BlockCache::insert::ensures#rejects-old-and-duplicate+invariant+frame", bounded="cache holds at most 3 blocks (all contents symbolic)"),
        dict(name="block_cache_drop_obsolete_contract", obligation="BlockCache::drop_obsolete::ensures#never-lowers-next-height+drops-exactly-older+invariant", bounded="cache holds at most 3 blocks (all contents symbolic)"),
        dict(name="firm_execution_decision", obligation="should_execute_firm_block::ensures#firm-executes-iff-not-yet-soft-executed"),
        dict(name="block_response_contract", obligation="does_block_response_fulfill_contract::ensures#Ok<=>number==current+1"),
        dict(name="commitment_state_never_has_firm_above_soft", obligation="CommitmentStateBuilder::build::ensures#Ok<=>firm<=soft+fields-carried"),
        dict(name="height_mapping_is_inverse", obligation="state::map_rollup_number_to_sequencer_height+try_map_sequencer_height_to_rollup_height::ensures#exact-and-inverse"),
    ],
    assumptions=["BTreeMap replaced by an ordered-map stand-in with the same semantics for remove/first_key_value/split_off/entry (capacity 3)",
                 "tendermint Height is a u64 <= i64::MAX",
                 "Initialized::execute_soft/execute_firm/update_commitment_state (the step functions that talk to the rollup) and the tokio select loop are NOT under contract in this build: the ordering argument of DESIGN §6 C10 rests on BlockCache + these decision functions only"],
)
