F = "crates/astria-sequencer/src/mempool/transactions_container.rs"
G = "crates/astria-core/src/protocol/transaction/v1/action/group/mod.rs"

PRELUDE = r'''
use std::cmp::Ordering;
pub const MCAP: usize = 3;
#[derive(Clone, Copy, Debug, PartialEq, Eq, PartialOrd, Ord)] pub struct Instant(pub u64);
#[derive(Clone, Copy, Debug, PartialEq, Eq)] pub struct TransactionId(pub u8);
#[derive(Clone, Copy, Debug, PartialEq, Eq)]
pub struct TimemarkedTransaction { pub id: TransactionId, pub nonce: u32, pub cost: u128 }
impl TimemarkedTransaction { pub fn nonce(&self) -> u32 { self.nonce } pub fn id(&self) -> &TransactionId { &self.id } }
/// one-asset balance map stand-in for HashMap<IbcPrefixed, u128>
#[derive(Clone, Copy, Debug)] pub struct HashMap<K, V> { pub bal: u128, pub _k: std::marker::PhantomData<(K, V)> }
#[derive(Clone, Copy, Debug)] pub struct IbcPrefixed;
/// ordered map stand-in for BTreeMap<u32, TimemarkedTransaction>
#[derive(Clone, Copy, Debug)]
pub struct BTreeMap<K, V> { pub slots: [Option<(K, V)>; MCAP] }
impl<K, V> Default for BTreeMap<K, V> { fn default() -> Self { BTreeMap { slots: [None, None, None] } } }
impl BTreeMap<u32, TimemarkedTransaction> {
    pub fn get(&self, k: &u32) -> Option<&TimemarkedTransaction> { let mut r = None; let mut i = 0; while i < MCAP { if let Some((kk, v)) = &self.slots[i] { if *kk == *k { r = Some(v); } } i += 1; } r }
    pub fn contains_key(&self, k: &u32) -> bool { self.get(k).is_some() }
    pub fn len(&self) -> usize { let mut n = 0; let mut i = 0; while i < MCAP { if self.slots[i].is_some() { n += 1; } i += 1; } n }
    pub fn insert(&mut self, k: u32, v: TimemarkedTransaction) -> Option<TimemarkedTransaction> {
        let mut i = 0; while i < MCAP { if let Some((kk, old)) = self.slots[i] { if kk == k { self.slots[i] = Some((k, v)); return Some(old); } } i += 1; }
        let mut i = 0; while i < MCAP { if self.slots[i].is_none() { self.slots[i] = Some((k, v)); return None; } i += 1; }
        panic!("map stand-in capacity exceeded")
    }
    pub fn sum_costs(&self) -> Option<u128> { let mut s: Option<u128> = Some(0); let mut i = 0; while i < MCAP { if let Some((_, v)) = self.slots[i] { s = s.and_then(|x| x.checked_add(v.cost)); } i += 1; } s }
}
impl PendingTransactionsForAccount {
    /// stand-in for the iterator chain `txs.values().chain(once(ttx)).try_for_each(deduct_costs)`: all costs together fit the balance
    pub fn has_balance_to_cover_shim(&self, ttx: &TimemarkedTransaction, b: &HashMap<IbcPrefixed, u128>) -> bool {
        match self.txs.sum_costs().and_then(|s| s.checked_add(ttx.cost)) { Some(t) => t <= b.bal, None => false }
    }
}
'''

HARNESS = r'''
    fn any_prio() -> TransactionPriority {
        let g: u8 = kani::any();
        let group = match g % 4 { 0 => Group::UnbundleableSudo, 1 => Group::BundleableSudo, 2 => Group::UnbundleableGeneral, _ => Group::BundleableGeneral };
        TransactionPriority { nonce_diff: kani::any(), time_first_seen: Instant(kani::any()), group }
    }
    // ---- builder-queue priority: a total order; within a group a lower nonce always comes first -------------------
    #[kani::proof]
    fn priority_is_total_order() {
        let (a, b, c) = (any_prio(), any_prio(), any_prio());
        assert!(a.cmp(&b) == b.cmp(&a).reverse());                                       // antisymmetric
        if a.cmp(&b) == Ordering::Equal { assert!(a == b); }                            // consistent with Eq
        if a.cmp(&b) != Ordering::Less && b.cmp(&c) != Ordering::Less { assert!(a.cmp(&c) != Ordering::Less); }   // transitive
    }
    #[kani::proof]
    fn lower_nonce_of_same_group_sorts_first() {
        let (a, b) = (any_prio(), any_prio());
        // the builder queue pops the GREATEST priority first
        if a.group == b.group && a.nonce_diff < b.nonce_diff { assert!(a.cmp(&b) == Ordering::Greater); }
        if a.group > b.group { assert!(a.cmp(&b) == Ordering::Greater); }
    }

    // ---- pending (ready) transactions of one account: consecutive nonces from the account nonce, jointly affordable ----
    fn any_pending(account_nonce: u32) -> PendingTransactionsForAccount {
        // representation invariant: keys are account_nonce, account_nonce+1, .. without gap, each tx sits at its own nonce
        let n: usize = kani::any(); kani::assume(n < MCAP);
        let mut p = PendingTransactionsForAccount { txs: BTreeMap::default() };
        let mut i = 0;
        while i < n { let nonce = account_nonce.checked_add(i as u32); kani::assume(nonce.is_some());
                      p.txs.slots[i] = Some((nonce.unwrap(), TimemarkedTransaction { id: TransactionId(kani::any()), nonce: nonce.unwrap(), cost: kani::any() })); i += 1; }
        p
    }
    fn contiguous_from(p: &PendingTransactionsForAccount, start: u32) -> bool {
        let n = p.txs.len() as u32;
        let mut ok = true; let mut i = 0;
        while i < MCAP { if let Some((k, v)) = p.txs.slots[i] { if v.nonce != k || k < start || (k - start) >= n { ok = false; } } i += 1; }
        ok    // n distinct keys inside [start, start+n) == the full run
    }
    #[kani::proof]
    #[kani::unwind(5)]
    fn pending_add_contract() {
        let account_nonce: u32 = kani::any();
        let mut p = any_pending(account_nonce);
        let before = p;
        let bal = HashMap { bal: kani::any(), _k: std::marker::PhantomData };
        kani::assume(before.txs.sum_costs().map_or(false, |s| s <= bal.bal));              // affordable before
        let ttx = TimemarkedTransaction { id: TransactionId(kani::any()), nonce: kani::any(), cost: kani::any() };
        let r = p.add(ttx, account_nonce, &bal);
        match r {
            Ok(()) => {
                assert!(p.txs.len() == before.txs.len() + 1 && p.txs.get(&ttx.nonce) == Some(&ttx));
                assert!(contiguous_from(&p, account_nonce));                                   // still consecutive nonces starting at the account nonce
                assert!(p.txs.sum_costs().map_or(false, |s| s <= bal.bal));                    // still jointly affordable
            }
            Err(e) => {
                // refused: the container is untouched and the reason is the stated one
                let mut i = 0; while i < MCAP { assert!(p.txs.slots[i] == before.txs.slots[i]); i += 1; }
                match e {
                    InsertionError::NonceTooLow => assert!(ttx.nonce < account_nonce),
                    InsertionError::AlreadyPresent => assert!(before.txs.get(&ttx.nonce).map(|t| t.id) == Some(ttx.id)),
                    InsertionError::NonceTaken => assert!(before.txs.get(&ttx.nonce).map_or(false, |t| t.id != ttx.id)),
                    InsertionError::NonceGap => assert!(ttx.nonce > account_nonce && !before.txs.contains_key(&(ttx.nonce - 1))),
                    _ => {}
                }
            }
        }
    }
    #[kani::proof]
    #[kani::unwind(5)]
    fn canary_pending_add_ok_reachable() {
        let account_nonce: u32 = kani::any();
        let mut p = any_pending(account_nonce);
        let bal = HashMap { bal: kani::any(), _k: std::marker::PhantomData };
        let ttx = TimemarkedTransaction { id: TransactionId(kani::any()), nonce: kani::any(), cost: kani::any() };
        assert!(p.add(ttx, account_nonce, &bal).is_err());   // must FAIL
    }
'''

UNIT = dict(
    name="c13_mempool", mode="K", properties=["C13"],
    shim_files=["shims/common.rs"],
    prelude=PRELUDE,
    items=[
        dict(file=G, path="enum Group"),
        dict(file=F, path="struct TransactionPriority"),
        dict(file=F, path="impl Ord for TransactionPriority"),
        dict(file=F, path="impl PartialOrd for TransactionPriority"),
        dict(file=F, path="enum InsertionError"),
        dict(file=F, path="struct PendingTransactionsForAccount", keep_derives={"Clone", "Debug", "Default"}, add_derive="Copy"),
        dict(file=F, path="trait TransactionsForAccount/fn txs"),
        dict(file=F, path="trait TransactionsForAccount/fn txs_mut"),
        dict(file=F, path="trait TransactionsForAccount/fn is_at_tx_limit"),
        dict(file=F, path="trait TransactionsForAccount/fn is_sequential_nonce_precondition_met"),
        dict(file=F, path="trait TransactionsForAccount/fn has_balance_to_cover"),
        dict(file=F, path="trait TransactionsForAccount/fn add"),
        dict(file=F, path="impl TransactionsForAccount for PendingTransactionsForAccount/fn txs"),
        dict(file=F, path="impl TransactionsForAccount for PendingTransactionsForAccount/fn txs_mut"),
        dict(file=F, path="impl TransactionsForAccount for PendingTransactionsForAccount/fn is_at_tx_limit"),
        dict(file=F, path="impl TransactionsForAccount for PendingTransactionsForAccount/fn is_sequential_nonce_precondition_met"),
        dict(file=F, path="impl TransactionsForAccount for PendingTransactionsForAccount/fn has_balance_to_cover",
             rewrites=[dict(rule="regex", id="R8.has_balance_iterator_chain", old=r"let mut current_account_balances = current_account_balances\.clone\(\);(?:.|\n)*?\.is_ok\(\)", new="self.has_balance_to_cover_shim(ttx, current_account_balances)", count=1)]),
    ],
    harness=HARNESS,
    harnesses=[
        dict(name="priority_is_total_order", obligation="TransactionPriority::cmp::ensures#total-order"),
        dict(name="lower_nonce_of_same_group_sorts_first", obligation="TransactionPriority::cmp::ensures#group-first-then-lower-nonce-first"),
        dict(name="pending_add_contract", obligation="TransactionsForAccount::add(pending)::ensures#consecutive-from-account-nonce+affordable+refusal-leaves-unchanged",
             bounded="at most 3 transactions per account in the container (contents symbolic)"),
        dict(name="canary_pending_add_ok_reachable", expect="fail"),
    ],
    assumptions=["BTreeMap<u32, TimemarkedTransaction> is an ordered-map stand-in (capacity 3); TimemarkedTransaction is a stand-in with id, nonce and a single-asset cost; balances are a single-asset map",
                 "PendingTransactionsForAccount::has_balance_to_cover (an iterator chain over deduct_costs) is replaced by the stand-in has_balance_to_cover_shim with the meaning `sum of all costs including the new one <= balance`; the rest of the trait (txs, txs_mut, is_at_tx_limit, is_sequential_nonce_precondition_met, add) is the extracted text",
                 "NOT under contract: parked containers, find_promotables/find_demotables, TransactionsContainer, Mempool::{insert, run_maintenance, remove_tx_invalid} and the exactly-one-place invariant across pending/parked/removal cache"],
)
