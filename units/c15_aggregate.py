# aggregate_oracle_votes: grouping of the reported prices by currency pair before the median.  properties: "C15"
import importlib.util, os
_spec = importlib.util.spec_from_file_location("vx_c07b", os.path.join(os.path.dirname(os.path.abspath(__file__)), "c07_builder.py"))
_b = importlib.util.module_from_spec(_spec); _spec.loader.exec_module(_b)
_P = _b.PRELUDE
_vec = _P[_P.index("pub const CAP: usize = 4;"):_P.index("#[derive(Clone, Copy, Debug, PartialEq, Eq, Default)] pub struct Arc<T>")]
_map = _P[_P.index("// ---- insertion-ordered map standing in"):_P.index("/// std HashMap: iteration order is arbitrary")]
U = "crates/astria-core/src/oracles/price_feed/utils.rs"

PRELUDE = _vec.replace("macro_rules! vec { () => { crate::Vec::new() } }", "macro_rules! vec { () => { crate::Vec::new() }; ($x:expr) => {{ let mut v = crate::Vec::new(); v.push($x); v }} }") + _map + r'''
#[derive(Clone, Copy, Debug, PartialEq, Eq, PartialOrd, Ord, Default)] pub struct CurrencyPairId(pub u8);
#[derive(Clone, Copy, Debug, PartialEq, Eq, PartialOrd, Ord, Default)] pub struct CurrencyPair(pub u8);
#[derive(Clone, Copy, Debug, PartialEq, Eq, PartialOrd, Ord, Default)] pub struct Price(pub i128);
#[derive(Clone, Copy, Debug, PartialEq, Eq, PartialOrd, Ord, Default)] pub struct CurrencyPairInfo { pub currency_pair: CurrencyPair, pub decimals: u8 }
#[derive(Clone, Copy, Debug, PartialEq, Eq)] pub struct OracleVoteExtension { pub prices: IndexMap<CurrencyPairId, Price> }
impl Default for OracleVoteExtension { fn default() -> Self { OracleVoteExtension { prices: IndexMap::new() } } }
pub mod sequencerblock { pub mod v1 { pub mod block {
    #[derive(Clone, Copy, Debug, PartialEq, Eq)] pub struct Price { pub currency_pair: crate::CurrencyPair, pub value: crate::Price, pub decimals: u8 }
    impl Price { pub fn new(currency_pair: crate::CurrencyPair, value: crate::Price, decimals: u8) -> Self { Price { currency_pair, value, decimals } } }
} } }
/// median: the contract proved on the real text in unit c15_median — None for an empty list, otherwise a value between the smallest and the largest element; here: ANY such value
pub static mut MEDIAN_CALLS: [Option<(Vec<Price>, Price)>; 3] = [None; 3];
pub static mut N_MEDIAN: usize = 0;
pub fn median(list: Vec<Price>) -> Option<Price> {
    if list.n == 0 { return None; }
    let mut lo = list.items[0]; let mut hi = list.items[0]; let mut i = 1; while i < list.n { if list.items[i] < lo { lo = list.items[i]; } if list.items[i] > hi { hi = list.items[i]; } i += 1; }
    let m = Price(kani::any()); kani::assume(lo <= m && m <= hi);
    unsafe { assert!(N_MEDIAN < 3); MEDIAN_CALLS[N_MEDIAN] = Some((list, m)); N_MEDIAN += 1; }
    Some(m)
}
'''

HARNESS = r'''
    // ---- every published price is the median of exactly the prices reported for that pair in this block, pairs unknown to the mapping are ignored, each pair once ----
    #[kani::proof]
    #[kani::unwind(6)]
    fn published_price_is_median_of_exactly_that_pairs_reports() {
        unsafe { N_MEDIAN = 0; MEDIAN_CALLS = [None; 3]; }
        // mapping: ids 0 and 1 are known (pairs A=10, B=11), any other id is not in state
        let mut map: IndexMap<CurrencyPairId, CurrencyPairInfo> = IndexMap::new();
        map.insert(CurrencyPairId(0), CurrencyPairInfo { currency_pair: CurrencyPair(10), decimals: kani::any() });
        map.insert(CurrencyPairId(1), CurrencyPairInfo { currency_pair: CurrencyPair(11), decimals: kani::any() });
        // two votes with up to two prices each, for arbitrary ids in 0..3 (distinct inside one vote: it is a map)
        let mut votes: Vec<OracleVoteExtension> = Vec::new();
        let mut reports: [(u8, i128); 4] = [(9, 0); 4]; let mut nr = 0;
        let mut v = 0;
        while v < 2 {
            let mut ext = OracleVoteExtension::default();
            let k: usize = kani::any(); kani::assume(k <= 2);
            let mut j = 0; while j < k { let id: u8 = kani::any(); kani::assume(id < 3); let p: i128 = kani::any(); if ext.prices.find(&CurrencyPairId(id)).is_none() { ext.prices.insert(CurrencyPairId(id), Price(p)); reports[nr] = (id, p); nr += 1; } j += 1; }
            votes.push(ext); v += 1;
        }
        let mut out: [Option<sequencerblock::v1::block::Price>; 3] = [None; 3]; let mut no = 0;
        for p in aggregate_oracle_votes(votes, &map) { assert!(no < 3); out[no] = Some(p); no += 1; }
        // one output per known pair that has at least one report, none for unknown ids
        let mut pair = 0u8;
        while pair < 2 {
            let mut cnt = 0; let mut lo = i128::MAX; let mut hi = i128::MIN; let mut i = 0;
            while i < nr { if reports[i].0 == pair { cnt += 1; if reports[i].1 < lo { lo = reports[i].1; } if reports[i].1 > hi { hi = reports[i].1; } } i += 1; }
            let mut hits = 0; let mut val = 0i128; let mut dec_ok = true; let mut o = 0;
            while o < no { let x = out[o].unwrap(); if x.currency_pair == CurrencyPair(10 + pair) { hits += 1; val = x.value.0; dec_ok = x.decimals == map.vs[pair as usize].decimals; } o += 1; }
            assert!(hits == if cnt > 0 { 1 } else { 0 });
            if cnt > 0 { assert!(lo <= val && val <= hi && dec_ok); }          // within the range reported for THAT pair in this block
            pair += 1;
        }
        let mut o = 0; while o < no { let x = out[o].unwrap(); assert!(x.currency_pair == CurrencyPair(10) || x.currency_pair == CurrencyPair(11)); o += 1; }
        // the list handed to the median is exactly that pair's reports, in vote order
        let mut c = 0;
        while c < unsafe { N_MEDIAN } { let (list, _m) = unsafe { MEDIAN_CALLS[c] }.unwrap();
            let mut total = 0; let mut pair = 0u8;
            while pair < 2 { let mut same = true; let mut idx = 0; let mut i = 0; while i < nr { if reports[i].0 == pair { if idx >= list.n || list.items[idx].0 != reports[i].1 { same = false; } idx += 1; } i += 1; } if same && idx == list.n { total += 1; } pair += 1; }
            assert!(total >= 1); c += 1; }
    }
    #[kani::proof]
    #[kani::unwind(6)]
    fn canary_two_pairs_published_reachable() {
        unsafe { N_MEDIAN = 0; MEDIAN_CALLS = [None; 3]; }
        let mut map: IndexMap<CurrencyPairId, CurrencyPairInfo> = IndexMap::new();
        map.insert(CurrencyPairId(0), CurrencyPairInfo { currency_pair: CurrencyPair(10), decimals: 1 }); map.insert(CurrencyPairId(1), CurrencyPairInfo { currency_pair: CurrencyPair(11), decimals: 1 });
        let mut ext = OracleVoteExtension::default(); ext.prices.insert(CurrencyPairId(kani::any()), Price(kani::any())); ext.prices.insert(CurrencyPairId(kani::any()), Price(kani::any()));
        let mut votes: Vec<OracleVoteExtension> = Vec::new(); votes.push(ext);
        let mut n = 0; for _p in aggregate_oracle_votes(votes, &map) { n += 1; }
        assert!(n < 2);      // must FAIL
    }
'''

UNIT = dict(
    name="c15_aggregate", mode="K", properties=["C15"],
    shim_files=["shims/common.rs"],
    prelude=PRELUDE,
    items=[dict(file=U, path="fn aggregate_oracle_votes")],
    harness=HARNESS,
    harnesses=[
        dict(name="published_price_is_median_of_exactly_that_pairs_reports", obligation="price_feed::utils::aggregate_oracle_votes::ensures#one-price-per-known-pair-with-reports+within-that-pairs-reported-range+unknown-ids-ignored+median-over-exactly-that-pairs-reports",
             bounded="2 votes with at most 2 prices each over 3 currency-pair ids (2 known)"),
        dict(name="canary_two_pairs_published_reachable", expect="fail"),
    ],
    harness_timeout=900,
    assumptions=["median is a stand-in returning ANY value between the smallest and largest element (the contract proved on the real text in unit c15_median); IndexMap and Vec are fixed-capacity stand-ins (shared with unit c07_builder)",
                 "NOT under contract: calculate_prices_from_vote_extensions (protobuf decoding of each extension), the proposer's id -> currency pair mapping"],
)
