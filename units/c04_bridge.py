ACC = "crates/astria-sequencer/src/accounts/state_ext.rs"
CA = "crates/astria-sequencer/src/checked_actions/mod.rs"
BL = "crates/astria-sequencer/src/checked_actions/bridge/bridge_lock.rs"
BU = "crates/astria-sequencer/src/checked_actions/bridge/bridge_unlock.rs"
BT = "crates/astria-sequencer/src/checked_actions/bridge/bridge_transfer.rs"

PRELUDE = r'''
vx_insufficient_funds_marker!();
pub trait AssetTransfer { fn transfer_asset_and_amount(&self) -> Option<(IbcPrefixed, u128)>; }
// action structs of astria-core (same field names; String fields are the opaque Text / EventId stand-ins)
#[derive(Clone, Debug)]
pub struct BridgeLock { pub to: Address, pub amount: u128, pub asset: asset::Denom, pub fee_asset: asset::Denom, pub destination_chain_address: Text }
#[derive(Clone, Debug)]
pub struct BridgeUnlock { pub to: Address, pub amount: u128, pub fee_asset: asset::Denom, pub memo: Text, pub bridge_address: Address,
                          pub rollup_block_number: u64, pub rollup_withdrawal_event_id: EventId }
#[derive(Clone, Debug)]
pub struct BridgeTransfer { pub to: Address, pub amount: u128, pub fee_asset: asset::Denom, pub destination_chain_address: Text, pub bridge_address: Address,
                            pub rollup_block_number: u64, pub rollup_withdrawal_event_id: EventId }
pub type CheckedBridgeUnlock = CheckedBridgeUnlockImpl<true>;
'''

HARNESS = r'''
    fn any_deposit() -> Deposit {
        Deposit { bridge_address: Address::any(), rollup_id: RollupId(kani::any()), amount: kani::any(), asset: Denom::any(),
                  destination_chain_address: Text(kani::any()), source_transaction_id: TransactionId(kani::any()), source_action_index: kani::any() }
    }

    // ---- BridgeLock::execute: one deposit, equal credit, same call -----------------------------------------
    #[kani::proof]
    #[kani::unwind(10)]
    fn bridge_lock_execute_contract() {
        reset_store();
        let action = BridgeLock { to: Address::any(), amount: kani::any(), asset: Denom::any(), fee_asset: Denom::any(), destination_chain_address: Text(kani::any()) };
        let signer: [u8; ADDRESS_LEN] = kani::any();
        // a checked action as `new` builds it: the deposit names the action's bridge account, amount and asset
        let mut deposit = any_deposit();
        deposit.bridge_address = action.to; deposit.amount = action.amount;
        let to = action.to.bytes; let amount = action.amount; let x = action.asset.to_ibc_prefixed();
        store().declare(Key::Balance(signer, x));
        store().declare(Key::Balance(to, x));
        store().declare(Key::BridgeRollupId(signer));
        store().declare(Key::BridgeDisabled(to));
        let checked: CheckedBridgeLockImpl<true> = CheckedBridgeLockImpl { action, tx_signer: signer.into(), deposit: deposit.clone() };
        let r = checked.execute(State);
        let from0 = bal_init(&signer, x); let to0 = bal_init(&to, x);
        if r.is_ok() {
            // C04: exactly one deposit is registered, it is the action's deposit, and the named bridge account is credited the same amount
            assert!(store().n_deposits == 1 && store().deposits[0] == Some(deposit));
            assert!(store().deposit_events == 1 && store().events == 1);
            if signer != to {
                assert!(from0 >= amount && bal_now(&signer, x) == from0 - amount);
                assert!(to0.checked_add(amount) == Some(bal_now(&to, x)));
            } else {
                assert!(bal_now(&to, x) == to0 && from0 >= amount);
            }
            // C02: debited account is the signer, not a bridge account; deposits to a disabled bridge are refused
            assert!(store().peek_init(Key::BridgeRollupId(signer)).is_none());
            assert!(store().peek_init(Key::BridgeDisabled(to)).map_or(true, |v| v & 1 == 0));
            assert!(store().unchanged_except(&[Key::Balance(signer, x), Key::Balance(to, x)]));
        } else {
            // no deposit is published for an action that did not take effect
            assert!(store().n_deposits == 0 && store().deposit_events == 0);
        }
    }
    #[kani::proof]
    #[kani::unwind(10)]
    fn canary_bridge_lock_ok_reachable() {
        reset_store();
        let action = BridgeLock { to: Address::any(), amount: kani::any(), asset: Denom::any(), fee_asset: Denom::any(), destination_chain_address: Text(kani::any()) };
        let signer: [u8; ADDRESS_LEN] = kani::any();
        let x = action.asset.to_ibc_prefixed();
        store().declare(Key::Balance(signer, x));
        store().declare(Key::Balance(action.to.bytes, x));
        store().declare(Key::BridgeRollupId(signer));
        store().declare(Key::BridgeDisabled(action.to.bytes));
        let checked: CheckedBridgeLockImpl<true> = CheckedBridgeLockImpl { action, tx_signer: signer.into(), deposit: any_deposit() };
        assert!(checked.execute(State).is_err());   // must FAIL
    }

    // ---- BridgeUnlock: only the current withdrawer, each event id at most once ------------------------------
    fn any_unlock() -> BridgeUnlock {
        BridgeUnlock { to: Address::any(), amount: kani::any(), fee_asset: Denom::any(), memo: Text(kani::any()), bridge_address: Address::any(),
                       rollup_block_number: kani::any(), rollup_withdrawal_event_id: EventId(kani::any()) }
    }
    #[kani::proof]
    #[kani::unwind(10)]
    fn bridge_unlock_execute_contract() {
        reset_store();
        let action = any_unlock();
        let signer: [u8; ADDRESS_LEN] = kani::any();
        let x = IbcPrefixed(kani::any());
        let bridge = action.bridge_address.bytes; let to = action.to.bytes; let amount = action.amount;
        let ev = Key::WithdrawalEvent(bridge, action.rollup_withdrawal_event_id);
        store().declare(Key::Balance(bridge, x));
        store().declare(Key::Balance(to, x));
        store().declare(Key::BridgeRollupId(to));
        store().declare(Key::BridgeWithdrawer(bridge));
        store().declare(ev);
        let block_number = action.rollup_block_number;
        let checked: CheckedBridgeUnlockImpl<true> = CheckedBridgeUnlockImpl { action, tx_signer: signer.into(), bridge_account_ibc_asset: x };
        let r = checked.execute(State);
        let b0 = bal_init(&bridge, x); let t0 = bal_init(&to, x);
        if r.is_ok() {
            // C02: the signer is the bridge account's withdrawer *in the pre-state of this very call*
            assert!(store().peek_init(Key::BridgeWithdrawer(bridge)).map(val_addr) == Some(signer));
            // C04: the event id was unused before and is recorded now (same key for every action type: bridge address + id)
            assert!(store().peek_init(ev).is_none());
            assert!(store().peek(ev).map(|v| v as u64) == Some(block_number));
            if bridge != to {
                assert!(b0 >= amount && bal_now(&bridge, x) == b0 - amount);
                assert!(t0.checked_add(amount) == Some(bal_now(&to, x)));
            }
            assert!(store().unchanged_except(&[Key::Balance(bridge, x), Key::Balance(to, x), ev]));
            assert!(store().n_deposits == 0);
        } else {
            assert!(store().peek(ev) == store().peek_init(ev));     // a refused withdrawal consumes no event id
        }
    }
    // ---- BridgeTransfer: bridge-to-bridge = unlock (authority, event id) + lock (deposit, equal credit) in one call ----------------
    #[kani::proof]
    #[kani::unwind(10)]
    fn bridge_transfer_execute_contract() {
        reset_store();
        let signer: [u8; ADDRESS_LEN] = kani::any();
        let x = IbcPrefixed(kani::any());
        let from = Address::any(); let to = Address::any(); let amount: u128 = kani::any();
        let ev_id = EventId(kani::any()); let bn: u64 = kani::any();
        let unlock = BridgeUnlock { to, amount, fee_asset: Denom::any(), memo: Text(0), bridge_address: from, rollup_block_number: bn, rollup_withdrawal_event_id: ev_id };
        let lock = BridgeLock { to, amount, asset: Denom::IbcPrefixed(x), fee_asset: Denom::any(), destination_chain_address: Text(kani::any()) };
        let mut deposit = any_deposit(); deposit.bridge_address = to; deposit.amount = amount;
        let action = BridgeTransfer { to, amount, fee_asset: Denom::any(), destination_chain_address: Text(0), bridge_address: from, rollup_block_number: bn, rollup_withdrawal_event_id: ev_id };
        let ev = Key::WithdrawalEvent(from.bytes, ev_id);
        store().declare(Key::Balance(from.bytes, x)); store().declare(Key::Balance(to.bytes, x));
        store().declare(Key::BridgeWithdrawer(from.bytes)); store().declare(ev); store().declare(Key::BridgeDisabled(to.bytes));
        let checked = CheckedBridgeTransfer { action,
            checked_bridge_unlock: CheckedBridgeUnlockImpl { action: unlock, tx_signer: signer.into(), bridge_account_ibc_asset: x },
            checked_bridge_lock: CheckedBridgeLockImpl { action: lock, tx_signer: signer.into(), deposit: deposit.clone() } };
        let r = checked.execute(State);
        let f0 = bal_init(&from.bytes, x); let t0 = bal_init(&to.bytes, x);
        if r.is_ok() {
            assert!(store().peek_init(Key::BridgeWithdrawer(from.bytes)).map(val_addr) == Some(signer));     // C02: current withdrawer of the source bridge
            assert!(store().peek_init(ev).is_none() && store().peek(ev).map(|v| v as u64) == Some(bn));       // C04: event id fresh, then recorded under (bridge, id)
            assert!(store().n_deposits == 1 && store().deposits[0] == Some(deposit));                          // C04: exactly one deposit, for the credited bridge
            if from.bytes != to.bytes { assert!(f0 >= amount && bal_now(&from.bytes, x) == f0 - amount); assert!(t0.checked_add(amount) == Some(bal_now(&to.bytes, x))); }
            assert!(store().peek_init(Key::BridgeDisabled(to.bytes)).map_or(true, |v| v & 1 == 0));
            assert!(store().unchanged_except(&[Key::Balance(from.bytes, x), Key::Balance(to.bytes, x), ev]));
        } else {
            assert!(store().peek(ev) == store().peek_init(ev));
        }
    }

    #[kani::proof]
    #[kani::unwind(10)]
    fn canary_bridge_unlock_ok_reachable() {
        reset_store();
        let action = any_unlock();
        let signer: [u8; ADDRESS_LEN] = kani::any();
        let x = IbcPrefixed(kani::any());
        let bridge = action.bridge_address.bytes;
        store().declare(Key::Balance(bridge, x));
        store().declare(Key::Balance(action.to.bytes, x));
        store().declare(Key::BridgeRollupId(action.to.bytes));
        store().declare(Key::BridgeWithdrawer(bridge));
        store().declare(Key::WithdrawalEvent(bridge, action.rollup_withdrawal_event_id));
        let checked: CheckedBridgeUnlockImpl<true> = CheckedBridgeUnlockImpl { action, tx_signer: signer.into(), bridge_account_ibc_asset: x };
        assert!(checked.execute(State).is_err());   // must FAIL
    }
'''

UNIT = dict(
    name="c04_bridge", mode="K", properties=["C04", "C02", "C01"],
    shim_files=["shims/common.rs", "shims/seq.rs"],
    prelude=PRELUDE,
    use="use crate::accounts::*;",
    items=[
        dict(file=ACC, path="struct InsufficientFunds", module="accounts"),
        dict(file=ACC, path="trait StateWriteExt/fn increase_balance", module="accounts"),
        dict(file=ACC, path="trait StateWriteExt/fn decrease_balance", module="accounts"),
        dict(file=ACC, path="impl<T: StateWrite> StateWriteExt for T", module="accounts"),
        dict(file=CA, path="struct TransactionSignerAddressBytes"),
        dict(file=CA, path="impl TransactionSignerAddressBytes/fn as_bytes"),
        dict(file=CA, path="impl From<[u8; ADDRESS_LENGTH]> for TransactionSignerAddressBytes"),
        dict(file=CA, path="impl AddressBytes for TransactionSignerAddressBytes"),
        dict(file=BL, path="struct CheckedBridgeLockImpl", keep_derives=set()),
        dict(file=BL, path="impl<const PURE_LOCK: bool> CheckedBridgeLockImpl<PURE_LOCK>/fn run_mutable_checks"),
        dict(file=BL, path="impl<const PURE_LOCK: bool> CheckedBridgeLockImpl<PURE_LOCK>/fn record_deposit"),
        dict(file=BL, path="impl CheckedBridgeLockImpl<true>/fn execute"),
        dict(file=BU, path="struct CheckedBridgeUnlockImpl", keep_derives=set()),
        dict(file=BU, path="impl<const PURE_UNLOCK: bool> CheckedBridgeUnlockImpl<PURE_UNLOCK>/fn run_mutable_checks"),
        dict(file=BU, path="impl<const PURE_UNLOCK: bool> CheckedBridgeUnlockImpl<PURE_UNLOCK>/fn record_withdrawal_event"),
        dict(file=BU, path="impl CheckedBridgeUnlockImpl<true>/fn execute"),
        dict(file=BU, path="impl<const PURE_UNLOCK: bool> CheckedBridgeUnlockImpl<PURE_UNLOCK>/fn action"),
        dict(file=BU, path="impl CheckedBridgeUnlockImpl<false>/fn bridge_account_ibc_asset"),
        dict(file=BT, path="struct CheckedBridgeTransfer", keep_derives=set()),
        dict(file=BT, path="impl CheckedBridgeTransfer/fn run_mutable_checks"),
        dict(file=BT, path="impl CheckedBridgeTransfer/fn execute"),
    ],
    harness=HARNESS,
    harnesses=[
        dict(name="bridge_lock_execute_contract", obligation="CheckedBridgeLock::execute::ensures#one-deposit+equal-credit+no-deposit-on-error+frame"),
        dict(name="canary_bridge_lock_ok_reachable", expect="fail"),
        dict(name="bridge_unlock_execute_contract", obligation="CheckedBridgeUnlock::execute::ensures#signer-is-current-withdrawer+event-id-fresh-then-recorded+exact-transfer+frame"),
        dict(name="canary_bridge_unlock_ok_reachable", expect="fail"),
        dict(name="bridge_transfer_execute_contract", obligation="CheckedBridgeTransfer::execute::ensures#withdrawer-of-source+event-id-fresh-then-recorded+one-deposit+exact-transfer+frame"),
    ],
    assumptions=["A-store typed accessors over the symbolic store (shims/seq.rs); create_deposit_event (ABCI event construction) counted only",
                 "action structs BridgeLock/BridgeUnlock are shim copies with the same field names (String fields opaque)",
                 "CheckedBridgeLockImpl::new (construction of the Deposit from the action and state) is not under contract in this unit: the harness assumes deposit.bridge_address == action.to and deposit.amount == action.amount"],
)
