F = "crates/astria-sequencer/src/proposal/block_size_constraints.rs"

PRELUDE = r'''
pub struct Report;
pub type Result<T> = core::result::Result<T, Report>;
pub fn vx_err() -> Report { Report }

// GeneratedCommitments::<B>::total_size(): opaque constants of the commitment layout (commitment.rs)
pub uninterp spec fn spec_commitments_size(uses_data_item_enum: bool) -> usize;
#[verifier::external_body]
pub fn vx_commitments_total_size(uses_data_item_enum: bool) -> (r: usize) ensures r == spec_commitments_size(uses_data_item_enum) { unimplemented!() }

impl BlockSizeConstraints {
    /// the running counters never exceed their limits
    pub open spec fn wf(&self) -> bool {
        self.current_size_sequencer <= self.max_size_sequencer && self.current_size_cometbft <= self.max_size_cometbft
    }
}
'''

LEMMAS = r'''
// A proposal built by adding items only when `has_space` holds stays within both limits, and
// re-checking the same items in the same order from the same start (ProcessProposal) never fails:
// both follow from  checked_add(s) is Ok <==> has_space(s)  (the per-call contracts above) by induction.
pub open spec fn fits(cur: int, max: int, sizes: Seq<int>) -> bool
    decreases sizes.len()
{ if sizes.len() == 0 { cur <= max } else { cur + sizes[0] <= max && fits(cur + sizes[0], max, sizes.subrange(1, sizes.len() as int)) } }

pub open spec fn total(sizes: Seq<int>) -> int decreases sizes.len()
{ if sizes.len() == 0 { 0 } else { sizes[0] + total(sizes.subrange(1, sizes.len() as int)) } }

pub proof fn lemma_fits_total(cur: int, max: int, sizes: Seq<int>)
    requires fits(cur, max, sizes), forall|i: int| 0 <= i < sizes.len() ==> sizes[i] >= 0,
    ensures cur + total(sizes) <= max
    decreases sizes.len()
{
    if sizes.len() > 0 {
        let rest = sizes.subrange(1, sizes.len() as int);
        assert forall|i: int| 0 <= i < rest.len() implies rest[i] >= 0 by { assert(rest[i] == sizes[i + 1]); }
        lemma_fits_total(cur + sizes[0], max, rest);
    }
}
'''

def add_spec(which):
    cur = "current_size_%s" % which
    mx = "max_size_%s" % which
    other_cur = "current_size_%s" % ("cometbft" if which == "sequencer" else "sequencer")
    other_max = "max_size_%s" % ("cometbft" if which == "sequencer" else "sequencer")
    return """
    requires old(self).wf(),
    ensures
        final(self).wf(),
        // Ok exactly when the item fits; the counter then grows by exactly `size`
        ret is Ok <==> old(self).%(cur)s as int + size as int <= old(self).%(mx)s as int,
        ret is Ok ==> final(self).%(cur)s as int == old(self).%(cur)s as int + size as int,
        ret is Err ==> final(self).%(cur)s == old(self).%(cur)s,
        // frame: limits and the other counter untouched
        final(self).%(mx)s == old(self).%(mx)s, final(self).%(other_cur)s == old(self).%(other_cur)s, final(self).%(other_max)s == old(self).%(other_max)s,
""" % dict(cur=cur, mx=mx, other_cur=other_cur, other_max=other_max)

UNIT = dict(
    name="c06_block_size", mode="V", properties=["C06"],
    prelude=PRELUDE, lemmas=LEMMAS,
    items=[
        dict(file=F, path="const MAX_SEQUENCE_DATA_BYTES_PER_BLOCK"),
        dict(file=F, path="struct BlockSizeConstraints", keep_derives={"Copy", "Clone"}),
        dict(file=F, path="impl BlockSizeConstraints/fn new",
             rewrites=["R6",
                       dict(rule="subst", id="R7.commitments_size_true", old="GeneratedCommitments::<true>::total_size()", new="vx_commitments_total_size(true)"),
                       dict(rule="subst", id="R7.commitments_size_false", old="GeneratedCommitments::<false>::total_size()", new="vx_commitments_total_size(false)"),
                       dict(rule="regex", id="R6.eyre_value", old=r"Err\(eyre!\([^)]*\)\)", new="Err(vx_err())", count=1),
                       dict(rule="regex", id="R6.try_from_err", old=r"usize::try_from\(cometbft_max_size\)\s*\?", new="(match usize::try_from(cometbft_max_size) { Ok(v) => v, Err(_) => return Err(vx_err()) })", count=1)],
             spec="""
    ensures
        ret is Ok ==> cometbft_max_size >= 0 && cometbft_max_size as int >= spec_commitments_size(uses_data_item_enum) as int,
        ret matches Ok(c) ==> c.wf() && c.max_size_sequencer == 256_000 && c.max_size_cometbft as int == cometbft_max_size as int
            && c.current_size_sequencer == 0 && c.current_size_cometbft == spec_commitments_size(uses_data_item_enum),
"""),
        dict(file=F, path="impl BlockSizeConstraints/fn sequencer_has_space", spec="""
    requires self.wf(),
    ensures ret == (self.current_size_sequencer as int + size as int <= self.max_size_sequencer as int),
"""),
        dict(file=F, path="impl BlockSizeConstraints/fn cometbft_has_space", spec="""
    requires self.wf(),
    ensures ret == (self.current_size_cometbft as int + size as int <= self.max_size_cometbft as int),
"""),
        dict(file=F, path="impl BlockSizeConstraints/fn sequencer_checked_add", rewrites=["R6"], spec=add_spec("sequencer")),
        dict(file=F, path="impl BlockSizeConstraints/fn cometbft_checked_add", rewrites=["R6"], spec=add_spec("cometbft")),
    ],
    assumptions=[
        "GeneratedCommitments::<B>::total_size() is an opaque constant per B",
        "R6: ensure!/eyre!/wrap_err/ok_or_eyre reduced to their Ok/Err shape (messages dropped)",
        "vstd specification of usize::try_from(i64), checked_add, saturating_sub",
    ],
)
