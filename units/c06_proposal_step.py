A = "crates/astria-sequencer/src/app/mod.rs"
B = "crates/astria-sequencer/src/proposal/block_size_constraints.rs"
G = "crates/astria-core/src/protocol/transaction/v1/action/group/mod.rs"

PRELUDE = r'''
// ---- fixed-capacity list standing in for Vec in this unit (plain array + length; Kani exhausts memory on heap Vecs of records holding Strings) ----
pub const VCAP: usize = 3;
#[derive(Clone, Debug, PartialEq, Eq)] pub struct Vec<T> { pub items: [T; VCAP], pub n: usize }
impl<T: Default> Vec<T> {
    pub fn new() -> Self { Vec { items: [T::default(), T::default(), T::default()], n: 0 } }
    pub fn push(&mut self, v: T) { assert!(self.n < VCAP, "list capacity"); self.items[self.n] = v; self.n += 1; }
}
impl<T: Default> Default for Vec<T> { fn default() -> Self { Vec::new() } }
impl<T> std::ops::Deref for Vec<T> { type Target = [T]; fn deref(&self) -> &[T] { &self.items[..self.n] } }
impl<T: Default> FromIterator<T> for Vec<T> { fn from_iter<I: IntoIterator<Item = T>>(it: I) -> Self { let mut v = Vec::new(); for x in it { v.push(x); } v } }
pub struct VecIntoIter<T> { v: Vec<T>, i: usize }
impl<T: Default> Iterator for VecIntoIter<T> { type Item = T; fn next(&mut self) -> Option<T> { if self.i < self.v.n { let r = std::mem::take(&mut self.v.items[self.i]); self.i += 1; Some(r) } else { None } } }
impl<T: Default> IntoIterator for Vec<T> { type Item = T; type IntoIter = VecIntoIter<T>; fn into_iter(self) -> VecIntoIter<T> { VecIntoIter { v: self, i: 0 } } }
#[allow(unused_macros)] macro_rules! vec { () => { crate::Vec::new() } }
impl Default for CheckedTransaction { fn default() -> Self { CheckedTransaction { id: 0, encoded_len: 0, seq: [0, 0], group: Group::BundleableGeneral, outcome: Outcome::Ok } } }
impl<T: Default> Default for Arc<T> { fn default() -> Self { Arc(T::default()) } }
/// shared pointer stand-in (no heap): the step only clones and dereferences it
#[derive(Clone, Copy, Debug, PartialEq, Eq)] pub struct Arc<T>(pub T);
impl<T> Arc<T> { pub fn new(t: T) -> Self { Arc(t) } }
impl<T> std::ops::Deref for Arc<T> { type Target = T; fn deref(&self) -> &T { &self.0 } }
use crate::eyre::{Result, WrapErr as _, OptionExt as _};
impl std::fmt::Display for eyre::Report { fn fmt(&self, _f: &mut std::fmt::Formatter<'_>) -> std::fmt::Result { Ok(()) } }
#[derive(Clone, Copy, Debug, PartialEq, Eq)] pub struct Len(pub usize);
impl Len { pub fn len(&self) -> usize { self.0 } }
#[derive(Clone, Copy, Debug, PartialEq, Eq)] pub enum Outcome { Ok, NonFatal, InvalidNonce, Fatal }
/// a checked transaction as far as the proposal step looks at it: encoded length, sequenced-data lengths, action group, and how it executes on the current state
#[derive(Clone, Copy, Debug, PartialEq, Eq)] pub struct CheckedTransaction { pub id: u8, pub encoded_len: usize, pub seq: [usize; 2], pub group: Group, pub outcome: Outcome }
impl CheckedTransaction {
    pub fn id(&self) -> u8 { self.id }
    pub fn encoded_bytes(&self) -> Len { Len(self.encoded_len) }
    pub fn rollup_data_bytes(&self) -> impl Iterator<Item = (u8, Len)> + '_ { self.seq.iter().map(|l| (0u8, Len(*l))) }
    pub fn group(&self) -> Group { self.group }
}
#[derive(Clone, Copy, Debug, PartialEq, Eq)] pub enum CheckedActionExecutionError { NonFatalExecution { index: u8 }, Fatal }
#[derive(Clone, Copy, Debug, PartialEq, Eq)] pub enum CheckedTransactionExecutionError { InvalidNonce { expected: u32, tx_nonce: u32 }, NonceOverflowed, CheckedAction(CheckedActionExecutionError) }
impl std::fmt::Display for CheckedTransactionExecutionError { fn fmt(&self, _f: &mut std::fmt::Formatter<'_>) -> std::fmt::Result { Ok(()) } }
impl From<CheckedTransactionExecutionError> for eyre::Report { fn from(_e: CheckedTransactionExecutionError) -> Self { eyre::Report::new() } }
#[derive(Clone, Copy, Debug, PartialEq, Eq, Default)] pub struct Event(pub u8);   // not zero-sized: CBMC aborts on arrays of zero-sized elements
#[derive(Clone, Copy, Debug, PartialEq, Eq, Default)] pub enum Code { #[default] Ok, Err(u32) }
impl Code { pub fn is_ok(&self) -> bool { matches!(self, Code::Ok) } pub fn is_err(&self) -> bool { !self.is_ok() } pub fn value(&self) -> u32 { match self { Code::Ok => 0, Code::Err(c) => *c } } }
pub struct AbciErrorCode(pub u32);
impl AbciErrorCode { pub const TRANSACTION_FAILED_EXECUTION: AbciErrorCode = AbciErrorCode(10); pub fn value(&self) -> u32 { self.0 } }
#[derive(Clone, Debug, PartialEq, Eq, Default)] pub struct ExecTxResult { pub code: Code, pub log: String, pub info: String, pub events: Vec<Event> }
#[derive(Clone, Debug, PartialEq, Eq)] pub enum RemovalReason { FailedExecution(String) }
/// removal log lives inside the stand-in (a `static mut` log next to heap Strings made Kani report spurious double frees)
pub const QCAP: usize = 3;
#[derive(Clone, Debug)] pub struct Mempool { pub n_removed: std::cell::Cell<u8>, pub last_removed: std::cell::Cell<u8>, pub queue: [CheckedTransaction; QCAP], pub n: usize }
impl Default for Mempool { fn default() -> Self { Mempool { n_removed: Default::default(), last_removed: Default::default(), queue: [CheckedTransaction::default(); QCAP], n: 0 } } }
impl Mempool {
    pub fn remove_tx_invalid(&self, tx: Arc<CheckedTransaction>, r: RemovalReason) { std::mem::forget(r); self.n_removed.set(self.n_removed.get() + 1); self.last_removed.set(tx.id); }
    pub fn len(&self) -> usize { self.n }
    /// the block-building order of the ready transactions (its ordering contract is unit c13_mempool)
    pub fn builder_queue(&self) -> Vec<Arc<CheckedTransaction>> { let mut v = Vec::new(); let mut i = 0; while i < self.n { v.push(Arc::new(self.queue[i])); i += 1; } v }
}
pub struct Metrics;
impl Metrics { pub fn set_prepare_proposal_excluded_transactions(&self, _n: usize) {} pub fn set_transactions_in_mempool_total(&self, _n: usize) {} pub fn increment_prepare_proposal_excluded_transactions_cometbft_space(&self) {} pub fn increment_prepare_proposal_excluded_transactions_sequencer_space(&self) {} pub fn increment_prepare_proposal_excluded_transactions_failed_execution(&self) {} }
pub static METRICS: Metrics = Metrics;
pub fn json<T>(_t: T) -> u8 { 0 }
pub struct GeneratedCommitments<const B: bool>; impl<const B: bool> GeneratedCommitments<B> { pub fn total_size() -> usize { if B { 68 } else { 64 } } }
/// App as far as the proposal code uses it.  execute_transaction runs the transaction in its own delta (contract: unit c03_tx); here it is a
/// DETERMINISTIC function of (application state, transaction): the first time a pair is seen the outcome is arbitrary, later it is replayed from the memo,
/// so that a proposer and a verifier starting from the same state see the same results (the state is a token that changes with every applied transaction).
#[derive(Clone, Copy, Debug, PartialEq, Eq)] pub struct Memo { pub state: u8, pub id: u8, pub outcome: Outcome, pub next: u8 }
pub struct AppState { pub token: u8, pub stored_executed: Option<Vec<ExecutedTransaction>> }
pub struct StateTx<'a> { pub st: &'a mut AppState, pub staged: Option<Vec<ExecutedTransaction>> }
impl<'a> StateTx<'a> { pub fn object_put(&mut self, _k: u8, v: Vec<ExecutedTransaction>) { self.staged = Some(v); } pub fn apply(self) -> u8 { self.st.stored_executed = self.staged; 0 } }
impl Arc<AppState> { pub fn try_begin_transaction(s: &mut AppState) -> Option<StateTx<'_>> { Some(StateTx { st: s, staged: None }) } }
pub const EXECUTED_TXS_KEY: u8 = 0;
pub struct App { pub exec_calls: usize, pub last_exec: Option<u8>, pub mempool: Mempool, pub metrics: &'static Metrics, pub state: AppState, pub memo: [Option<Memo>; QCAP], pub use_tx_outcome: bool }
impl App {
    pub fn execute_transaction(&mut self, tx: Arc<CheckedTransaction>) -> core::result::Result<Vec<Event>, CheckedTransactionExecutionError> {
        self.exec_calls += 1; self.last_exec = Some(tx.id);
        let outcome = if self.use_tx_outcome { tx.outcome } else {
            let mut found: Option<Memo> = None; let mut free = QCAP; let mut i = 0;
            while i < QCAP { match self.memo[i] { Some(m) => { if m.state == self.state.token && m.id == tx.id { found = Some(m); } } None => { if free == QCAP { free = i; } } } i += 1; }
            let m = match found { Some(m) => m, None => { let o = crate::vx_any_outcome(); let m = Memo { state: self.state.token, id: tx.id, outcome: o, next: if o == Outcome::Ok { kani::any() } else { self.state.token } };
                                                          assert!(free < QCAP, "memo capacity"); self.memo[free] = Some(m); m } };
            self.state.token = m.next; m.outcome };
        match outcome {
            Outcome::Ok => Ok(Vec::new()),
            Outcome::NonFatal => Err(CheckedTransactionExecutionError::CheckedAction(CheckedActionExecutionError::NonFatalExecution { index: 0 })),
            Outcome::InvalidNonce => Err(CheckedTransactionExecutionError::InvalidNonce { expected: 0, tx_nonce: 1 }),
            Outcome::Fatal => if kani::any() { Err(CheckedTransactionExecutionError::NonceOverflowed) } else { Err(CheckedTransactionExecutionError::CheckedAction(CheckedActionExecutionError::Fatal)) },
        }
    }
}
pub fn vx_any_outcome() -> Outcome { let k: u8 = kani::any(); match k % 4 { 0 => Outcome::Ok, 1 => Outcome::NonFatal, 2 => Outcome::InvalidNonce, _ => Outcome::Fatal } }
'''

HARNESS = r'''
    fn any_group() -> Group { let k: u8 = kani::any(); match k % 4 { 0 => Group::UnbundleableSudo, 1 => Group::BundleableSudo, 2 => Group::UnbundleableGeneral, _ => Group::BundleableGeneral } }
    fn any_outcome() -> Outcome { crate::vx_any_outcome() }
    fn any_tx() -> CheckedTransaction {
        let t = CheckedTransaction { id: kani::any(), encoded_len: kani::any(), seq: [kani::any(), kani::any()], group: any_group(), outcome: any_outcome() };
        kani::assume(t.seq[0] <= usize::MAX / 4 && t.seq[1] <= usize::MAX / 4);      // data lengths are lengths of in-memory byte strings
        t
    }
    fn any_constraints() -> BlockSizeConstraints {
        let c = BlockSizeConstraints { max_size_sequencer: kani::any(), max_size_cometbft: kani::any(), current_size_sequencer: kani::any(), current_size_cometbft: kani::any() };
        kani::assume(c.current_size_sequencer <= c.max_size_sequencer && c.current_size_cometbft <= c.max_size_cometbft);   // invariant of BlockSizeConstraints (unit c06_block_size)
        c
    }
    fn removed(p: &Proposal) -> u8 { p.mempool().n_removed.get() }
    fn new_app(use_tx_outcome: bool) -> App { App { exec_calls: 0, last_exec: None, mempool: Mempool::default(), metrics: &METRICS, state: AppState { token: 0, stored_executed: None }, memo: [None; QCAP], use_tx_outcome } }
    fn same(a: &CheckedTransaction, b: &CheckedTransaction) -> bool { a.id == b.id && a.encoded_len == b.encoded_len && a.seq[0] == b.seq[0] && a.seq[1] == b.seq[1] && a.group == b.group && a.outcome == b.outcome }
    fn seq_total(t: &CheckedTransaction) -> usize { t.seq[0] + t.seq[1] }

    // ---- PrepareProposal step: what may enter a proposed block -----------------------------------------------------------------------
    #[kani::proof]
    #[kani::unwind(4)]
    #[kani::stub(alloc::fmt::format, crate::vx_stub_format)]
    fn prepare_step_includes_only_what_fits_is_ordered_and_not_fatal() {
        let t = any_tx(); let c0 = any_constraints(); let g0 = any_group();
        let failed0: usize = kani::any(); let excluded0: usize = kani::any();
        let mut app = new_app(true);
        let mut p = Proposal::Prepare { block_size_constraints: c0, executed_txs: Vec::new(), failed_tx_count: failed0, excluded_tx_count: excluded0, current_tx_group: g0, mempool: Mempool::default(), metrics: &METRICS };
        let r = app.proposal_checks_and_tx_execution(Arc::new(t), &mut p);
        assert!(r.is_ok());                                          // the proposer never aborts on a mempool transaction
        assert!(app.exec_calls <= 1);
        let c1 = *p.block_size_constraints(); let g1 = p.current_tx_group();
        let included = p.executed_txs_mut().len() == 1;
        assert!(p.executed_txs_mut().len() <= 1);
        let fits = t.encoded_len <= c0.max_size_cometbft - c0.current_size_cometbft && seq_total(&t) <= c0.max_size_sequencer - c0.current_size_sequencer;
        // included  <=>  fits both limits, is not of a higher-priority group than what is already in, and executes without a fatal error
        assert!(included == (fits && t.group <= g0 && matches!(t.outcome, Outcome::Ok | Outcome::NonFatal)));
        if included {
            assert!(c1.current_size_cometbft == c0.current_size_cometbft + t.encoded_len && c1.current_size_sequencer == c0.current_size_sequencer + seq_total(&t));
            assert!(c1.current_size_cometbft <= c1.max_size_cometbft && c1.current_size_sequencer <= c1.max_size_sequencer);
            assert!(c1.max_size_cometbft == c0.max_size_cometbft && c1.max_size_sequencer == c0.max_size_sequencer);
            assert!(g1 == t.group && app.exec_calls == 1);
            let e = &p.executed_txs_mut()[0];
            assert!(same(&e.tx, &t) && (e.exec_result.code == Code::Ok) == (t.outcome == Outcome::Ok));
        } else {
            // not included: the running totals and the group are untouched (so the verifier, which never sees this transaction, stays in step)
            assert!(c1.current_size_cometbft == c0.current_size_cometbft && c1.current_size_sequencer == c0.current_size_sequencer && g1 == g0);
            // a transaction that does not fit or is out of order is not even executed
            if !(fits && t.group <= g0) { assert!(app.exec_calls == 0); }
        }
        // Break only when the CometBFT byte limit is hit
        assert!(matches!(r, Ok(BreakOrContinue::Break)) == !(t.encoded_len <= c0.max_size_cometbft - c0.current_size_cometbft));
        // failing transactions are evicted, except for a nonce that may become valid later
        if app.exec_calls == 1 { assert!((removed(&p) == 1) == matches!(t.outcome, Outcome::NonFatal | Outcome::Fatal)); assert!(removed(&p) == 0 || p.mempool().last_removed.get() == t.id); } else { assert!(removed(&p) == 0); }
        std::mem::forget(p); std::mem::forget(r);
    }

    // ---- ProcessProposal step: accepts exactly what an honest proposer could have included at this point, in the same way -------------
    #[kani::proof]
    #[kani::unwind(4)]
    #[kani::stub(alloc::fmt::format, crate::vx_stub_format)]
    fn process_step_accepts_what_prepare_includes_and_rejects_the_rest() {
        let t = any_tx(); let c0 = any_constraints(); let g0 = any_group();
        // the verifier's CometBFT budget is at least the proposer's (ProcessProposal runs with an unlimited CometBFT budget)
        let mut cv = c0; cv.max_size_cometbft = kani::any(); kani::assume(cv.max_size_cometbft >= c0.max_size_cometbft);
        let mut app_p = new_app(true);
        let mut p = Proposal::Prepare { block_size_constraints: c0, executed_txs: Vec::new(), failed_tx_count: 0, excluded_tx_count: 0, current_tx_group: g0, mempool: Mempool::default(), metrics: &METRICS };
        let rp = app_p.proposal_checks_and_tx_execution(Arc::new(t), &mut p);
        let included = p.executed_txs_mut().len() == 1;
        let mut app_v = new_app(true);
        let mut v = Proposal::Process { block_size_constraints: cv, executed_txs: Vec::new(), current_tx_group: g0, mempool: Mempool::default() };
        let rv = app_v.proposal_checks_and_tx_execution(Arc::new(t), &mut v);
        if included {
            // honest proposals are accepted, with the same result, the same running totals and the same group
            assert!(matches!(rv, Ok(BreakOrContinue::Continue)));
            assert!(v.executed_txs_mut().len() == 1 && v.executed_txs_mut()[0].exec_result.code == p.executed_txs_mut()[0].exec_result.code && v.executed_txs_mut()[0].exec_result.info.len() == p.executed_txs_mut()[0].exec_result.info.len() && same(&v.executed_txs_mut()[0].tx, &t));
            assert!(v.block_size_constraints().current_size_cometbft == p.block_size_constraints().current_size_cometbft
                 && v.block_size_constraints().current_size_sequencer == p.block_size_constraints().current_size_sequencer && v.current_tx_group() == p.current_tx_group());
        }
        // the verifier rejects: over the sequenced-data limit, mis-ordered, fatally failing (including a wrong nonce), over its own byte budget
        let seq_fits = seq_total(&t) <= cv.max_size_sequencer - cv.current_size_sequencer;
        let bytes_fit = t.encoded_len <= cv.max_size_cometbft - cv.current_size_cometbft;
        let acceptable = seq_fits && bytes_fit && t.group <= g0 && matches!(t.outcome, Outcome::Ok | Outcome::NonFatal);
        assert!(rv.is_ok() == acceptable);
        if !(seq_fits && t.group <= g0) { assert!(app_v.exec_calls == 0); }      // rejected before execution
        assert!(!matches!(rv, Ok(BreakOrContinue::Break)));
        std::mem::forget(p); std::mem::forget(v); std::mem::forget(rp); std::mem::forget(rv);
    }


    // ---- the two loops: whatever PrepareProposal builds from a mempool, ProcessProposal on the same state accepts, transaction by transaction ----
    #[kani::proof]
    #[kani::unwind(5)]
    #[kani::stub(alloc::fmt::format, crate::vx_stub_format)]
    fn whatever_prepare_builds_process_accepts() {
        let n: usize = kani::any(); kani::assume(n <= 2);
        let mut proposer = new_app(false);
        let mut i = 0; while i < n { let mut t = any_tx(); t.id = i as u8; proposer.mempool.queue[i] = t; i += 1; }
        proposer.mempool.n = n;
        let c0 = any_constraints();
        let included = match proposer.prepare_proposal_tx_execution(c0) { Ok(v) => v, Err(_) => { assert!(false); return; } };   // the proposer never fails on mempool content
        assert!(included.len() <= n);
        // the block stays within both limits
        let mut bytes = c0.current_size_cometbft; let mut seq = c0.current_size_sequencer; let mut k = 0;
        while k < included.len() { bytes += included[k].encoded_len; seq += seq_total(&included[k]); if k > 0 { assert!(included[k].group <= included[k - 1].group); } k += 1; }
        assert!(bytes <= c0.max_size_cometbft && seq <= c0.max_size_sequencer);
        // the execution results cached for FinalizeBlock are those of exactly the included transactions, in order
        match &proposer.state.stored_executed { Some(ex) => { assert!(ex.len() == included.len()); let mut k = 0; while k < ex.len() { assert!(ex[k].tx.id == included[k].id); k += 1; } } None => assert!(false) }
        // a verifier on the same committed state (same token, same deterministic execution function), with an unlimited CometBFT budget
        let mut verifier = new_app(false);
        verifier.memo = proposer.memo;
        let mut cv = c0; cv.max_size_cometbft = usize::MAX;
        match verifier.process_proposal_tx_execution(&included, cv) {
            Ok(ex) => {
                assert!(ex.len() == included.len());
                let mut k = 0; let pe = proposer.state.stored_executed.as_ref().unwrap();
                while k < ex.len() { assert!(ex[k].tx.id == included[k].id && ex[k].exec_result.code == pe[k].exec_result.code); k += 1; }
                assert!(verifier.state.token == proposer.state.token);              // both end in the same application state
                std::mem::forget(ex);
            }
            Err(_) => assert!(false),                                              // honest proposals are accepted
        }
        std::mem::forget(included); std::mem::forget(proposer); std::mem::forget(verifier);
    }
    #[kani::proof]
    #[kani::unwind(4)]
    #[kani::stub(alloc::fmt::format, crate::vx_stub_format)]
    fn canary_prepare_step_includes_reachable() {
        let t = any_tx();
        let mut app = new_app(true);
        let mut p = Proposal::Prepare { block_size_constraints: any_constraints(), executed_txs: Vec::new(), failed_tx_count: 0, excluded_tx_count: 0, current_tx_group: any_group(), mempool: Mempool::default(), metrics: &METRICS };
        let r = app.proposal_checks_and_tx_execution(Arc::new(t), &mut p);
        assert!(p.executed_txs_mut().len() == 0);     // must FAIL
        std::mem::forget(p); std::mem::forget(r);
    }
'''

UNIT = dict(
    name="c06_proposal_step", mode="K", properties=["C06"],
    shim_files=["shims/common.rs"],
    prelude=PRELUDE,
    items=[
        dict(file=G, path="enum Group", keep_derives={"Copy", "Clone", "Debug", "PartialEq", "Eq", "PartialOrd", "Ord"}),
        dict(file=B, path="struct BlockSizeConstraints", keep_derives={"Copy", "Clone"}),
        dict(file=B, path="impl BlockSizeConstraints/fn sequencer_has_space"),
        dict(file=B, path="impl BlockSizeConstraints/fn cometbft_has_space"),
        dict(file=B, path="impl BlockSizeConstraints/fn sequencer_checked_add"),
        dict(file=B, path="impl BlockSizeConstraints/fn cometbft_checked_add"),
        dict(file=A, path="struct ExecutedTransaction", keep_derives={"Clone"}, add_derive="Default"),
        dict(file=A, path="enum BreakOrContinue"),
        dict(file=A, path="impl BreakOrContinue/fn should_break"),
        dict(file=A, path="enum Proposal"),
        dict(file=A, path="impl Proposal/fn block_size_constraints"),
        dict(file=A, path="impl Proposal/fn block_size_constraints_mut"),
        dict(file=A, path="impl Proposal/fn current_tx_group"),
        dict(file=A, path="impl Proposal/fn set_current_tx_group"),
        dict(file=A, path="impl Proposal/fn executed_txs"),
        dict(file=A, path="impl Proposal/fn executed_txs_mut"),
        dict(file=A, path="impl Proposal/fn mempool"),
        dict(file=A, path="impl App/fn prepare_proposal_tx_execution"),
        dict(file=A, path="impl App/fn process_proposal_tx_execution"),
        dict(file=A, path="impl App/fn proposal_checks_and_tx_execution",
             rewrites=[dict(rule="subst", id="eyre-report-new(error)", old="eyre::Report::new(error)", new="eyre::Report::msg(error)", count=2)]),
    ],
    harness=HARNESS,
    harnesses=[
        dict(name="prepare_step_includes_only_what_fits_is_ordered_and_not_fatal", obligation="App::proposal_checks_and_tx_execution[Prepare]::ensures#included<=>fits-both-limits∧group-order∧no-fatal-error+exact-totals+skipped-leaves-totals"),
        dict(name="process_step_accepts_what_prepare_includes_and_rejects_the_rest", obligation="App::proposal_checks_and_tx_execution[Process]::ensures#accepts-what-Prepare-includes-identically+rejects-over-limit/mis-ordered/fatal"),
        dict(name="whatever_prepare_builds_process_accepts", obligation="App::prepare_proposal_tx_execution+process_proposal_tx_execution::ensures#prepared-block-within-limits+group-ordered+accepted-by-process-with-identical-results-and-state",
             bounded="mempool of at most 2 ready transactions"),
        dict(name="canary_prepare_step_includes_reachable", expect="fail"),
    ],
    harness_timeout=900,
    assumptions=["CheckedTransaction is a stand-in carrying what the step reads (encoded length, two sequenced-data lengths, group) and its execution outcome on the current state; App::execute_transaction is a logged stand-in (its own contract — runs in a delta applied iff Ok — is unit c03_tx); prepare and process see the same outcome because they run on the same state (C05)",
                 "Mempool::remove_tx_invalid is a logger; metrics dropped; ExecTxResult/Code/AbciErrorCode are small stand-ins; eyre::Report::new(error) rewritten to the shim's msg(error) (messages are not modelled)",
                 "execute_transaction in the loop harness is an arbitrary but deterministic function of (state token, transaction), memoised so that proposer and verifier agree; the state token changes only when a transaction is applied",
                 "NOT under contract: commitment generation and comparison, decoding and signature checks of proposed transactions, extended-commit-info handling"],
)
