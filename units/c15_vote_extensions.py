F = "crates/astria-sequencer/src/app/vote_extension.rs"

PRELUDE = r'''
pub const MAXV: usize = 2;   // bound on the number of votes in the harness commits
pub const ADDRESS_LENGTH: usize = 2;
// ---- fixed-capacity list / set stand-ins (iteration, insert) ------------------------------------------------------------
/// (no Option slots: Kani 0.68 produced counterexamples that do not reproduce natively for lists of niche-encoded
/// `Option<T>` slots iterated through `zip`; plain arrays + std slice iterators do not show this)
#[derive(Clone, Copy, Debug)]
pub struct List<T: Copy + Default> { pub items: [T; MAXV], pub n: usize }
impl<T: Copy + Default> List<T> {
    pub fn new() -> Self { List { items: [T::default(); MAXV], n: 0 } }
    pub fn push(&mut self, v: T) { assert!(self.n < MAXV); self.items[self.n] = v; self.n += 1; }
    pub fn len(&self) -> usize { self.n } pub fn is_empty(&self) -> bool { self.n == 0 }
    pub fn iter(&self) -> std::slice::Iter<'_, T> { self.items[..self.n].iter() }
    pub fn at(&self, i: usize) -> &T { assert!(i < self.n); &self.items[i] }
}
impl<'a, T: Copy + Default> IntoIterator for &'a List<T> { type Item = &'a T; type IntoIter = std::slice::Iter<'a, T>; fn into_iter(self) -> std::slice::Iter<'a, T> { self.iter() } }
/// set stand-in keyed by VALUE: the code inserts `&address`; equality of `&[u8; N]` keys is equality of the arrays.
/// (A set of references compared through `Option<&T>` slots gave a spurious "both inserts succeed" verdict in Kani 0.68
/// when the list length was symbolic; storing copies of the pointees avoids reference-typed keys altogether.)
pub struct HashSet<K> { pub vals: List<[u8; ADDRESS_LENGTH]>, pub _m: std::marker::PhantomData<K> }
impl<'a> HashSet<&'a [u8; ADDRESS_LENGTH]> {
    pub fn new() -> Self { HashSet { vals: List::new(), _m: std::marker::PhantomData } }
    pub fn insert(&mut self, k: &'a [u8; ADDRESS_LENGTH]) -> bool { let v = *k; let mut i = 0; while i < self.vals.n { if *self.vals.at(i) == v { return false; } i += 1; } self.vals.push(v); true }
}
// ---- tendermint / crypto stand-ins ------------------------------------------------------------------------------------------
#[derive(Clone, Copy, Debug, PartialEq, Eq, Default)] pub struct Power(pub u64); impl Power { pub fn value(&self) -> u64 { self.0 } }
#[derive(Clone, Copy, Debug, PartialEq, Eq)] pub struct Addr(pub [u8; ADDRESS_LENGTH]); impl Addr { pub fn as_slice(&self) -> &[u8] { &self.0 } }
impl std::ops::Deref for Addr { type Target = [u8; ADDRESS_LENGTH]; fn deref(&self) -> &[u8; ADDRESS_LENGTH] { &self.0 } }
#[derive(Clone, Copy, Debug, PartialEq, Eq, Default)] pub struct Validator { pub address: [u8; ADDRESS_LENGTH], pub power: Power }
pub mod tendermint { pub mod block { #[derive(Clone, Copy, Debug, PartialEq, Eq, Default)] pub enum BlockIdFlag { #[default] Absent, Commit, Nil } } }
#[derive(Clone, Copy, Debug, PartialEq, Eq, Default)] pub struct Flag(pub tendermint::block::BlockIdFlag);
#[derive(Clone, Copy, Debug, PartialEq, Eq, Default)] pub struct Ext(pub u8); impl Ext { pub fn is_empty(&self) -> bool { self.0 == 0 } pub fn to_vec(&self) -> u8 { self.0 } pub fn clone(&self) -> Ext { *self } }
#[derive(Clone, Copy, Debug, PartialEq, Eq, Default)] pub struct SigBytes(pub u8); impl SigBytes { pub fn as_bytes(&self) -> u8 { self.0 } }
#[derive(Clone, Copy, Debug, PartialEq, Eq, Default)]
pub struct ExtendedVoteInfo { pub validator: Validator, pub sig_info: Flag, pub vote_extension: Ext, pub extension_signature: Option<SigBytes> }
#[derive(Clone, Copy, Debug, PartialEq, Eq, Default)] pub struct VoteInfo { pub validator: Validator, pub sig_info: Flag }
#[derive(Clone, Copy, Debug, PartialEq, Eq)] pub struct Round(pub u16); impl Round { pub fn value(&self) -> u16 { self.0 } }
#[derive(Clone, Copy, Debug)] pub struct ExtendedCommitInfo { pub round: Round, pub votes: List<ExtendedVoteInfo> }
#[derive(Clone, Copy, Debug)] pub struct CommitInfo { pub round: Round, pub votes: List<VoteInfo> }
#[derive(Clone, Copy, Debug, PartialEq, Eq)] pub struct ChainId(pub u8); impl ChainId { pub fn to_string(&self) -> u8 { self.0 } }
#[derive(Clone, Copy, Debug, PartialEq, Eq)] pub struct Signature(pub u8);
impl TryFrom<u8> for Signature { type Error = eyre::Report; fn try_from(b: u8) -> core::result::Result<Self, eyre::Report> { if kani::any() { Ok(Signature(b)) } else { Err(eyre::Report::new()) } } }
pub mod tendermint_proto { pub mod v0_38 { pub mod types {
    /// canonical vote extension; protobuf length-delimited encoding is the identity here (prost encoding trusted to be injective)
    #[derive(Clone, Copy, Debug, PartialEq, Eq)]
    pub struct CanonicalVoteExtension { pub extension: u8, pub height: i64, pub round: i64, pub chain_id: u8 }
    impl CanonicalVoteExtension { pub fn encode_length_delimited_to_vec(&self) -> CanonicalVoteExtension { *self } }
} } }
use tendermint_proto::v0_38::types::CanonicalVoteExtension;
/// every signature check is logged with exactly the key, signature and message used; the verdict is arbitrary
#[derive(Clone, Copy, Debug, PartialEq, Eq)] pub struct VerifyCall { pub key: [u8; ADDRESS_LENGTH], pub sig: u8, pub msg: CanonicalVoteExtension, pub ok: bool }
pub static mut VERIFY_LOG: [Option<VerifyCall>; 4] = [None; 4];
pub static mut VERIFY_N: usize = 0;
#[derive(Clone, Copy, Debug, PartialEq, Eq)] pub struct VerificationKey { pub of: [u8; ADDRESS_LENGTH] }
impl VerificationKey {
    pub fn verify(&self, sig: &Signature, msg: &CanonicalVoteExtension) -> Result<()> {
        let ok: bool = kani::any();
        unsafe { assert!(VERIFY_N < 4); VERIFY_LOG[VERIFY_N] = Some(VerifyCall { key: self.of, sig: sig.0, msg: *msg, ok }); VERIFY_N += 1; }
        if ok { Ok(()) } else { Err(eyre::Report::new()) }
    }
}
pub struct ValidatorEntry { pub verification_key: VerificationKey }
/// application state: chain id, address prefixing (opaque), the stored validator entries (key registered for an address = the address's own key)
pub struct AppState { pub chain_id: ChainId, pub known: [Option<[u8; ADDRESS_LENGTH]>; MAXV] }
pub trait StateReadExt {
    fn get_chain_id(&self) -> Result<ChainId>;
    fn try_base_prefixed(&self, a: &[u8]) -> Result<u8>;
    fn get_validator(&self, a: &[u8; ADDRESS_LENGTH]) -> Result<Option<ValidatorEntry>>;
}
impl StateReadExt for AppState {
    fn get_chain_id(&self) -> Result<ChainId> { Ok(self.chain_id) }
    fn try_base_prefixed(&self, a: &[u8]) -> Result<u8> { if a.len() == ADDRESS_LENGTH { Ok(0) } else { Err(eyre::Report::new()) } }
    fn get_validator(&self, a: &[u8; ADDRESS_LENGTH]) -> Result<Option<ValidatorEntry>> {
        let mut r = None; let mut i = 0; while i < MAXV { if self.known[i] == Some(*a) { r = Some(ValidatorEntry { verification_key: VerificationKey { of: *a } }); } i += 1; } Ok(r)
    }
}
pub fn base64(_a: &[u8; ADDRESS_LENGTH]) -> u8 { 0 }
'''

HARNESS = r'''
    use crate::tendermint::block::BlockIdFlag;
    fn any_flag() -> Flag { let k: u8 = kani::any(); Flag(match k % 3 { 0 => BlockIdFlag::Absent, 1 => BlockIdFlag::Commit, _ => BlockIdFlag::Nil }) }
    fn any_ext_vote() -> ExtendedVoteInfo {
        ExtendedVoteInfo { validator: Validator { address: kani::any(), power: Power(kani::any()) }, sig_info: any_flag(), vote_extension: Ext(kani::any()),
                           extension_signature: if kani::any() { Some(SigBytes(kani::any())) } else { None } }
    }
    fn any_eci() -> ExtendedCommitInfo {
        let n: usize = kani::any(); kani::assume(n <= MAXV);
        let mut votes = List::new(); let mut i = 0; while i < n { votes.push(any_ext_vote()); i += 1; }
        ExtendedCommitInfo { round: Round(kani::any()), votes }
    }

    // ---- validate_vote_extensions: > 2/3 of the listed power, each vote signed by the validator it is attributed to, nobody twice ----
    #[kani::proof]
    #[kani::unwind(6)]
    #[kani::stub(alloc::fmt::format, crate::vx_stub_format)]
    fn vote_extensions_ok_implies_two_thirds_validly_signed() {
        unsafe { VERIFY_N = 0; VERIFY_LOG = [None; 4]; }
        let eci = any_eci();
        let st = AppState { chain_id: ChainId(kani::any()), known: [kani::any(), kani::any()] };
        let height: u64 = kani::any(); kani::assume(height >= 2 && height <= i64::MAX as u64);
        let r = validate_vote_extensions(&st, height, &eci);
        if r.is_ok() {
            let mut total: u128 = 0; let mut signed: u128 = 0;
            let mut i = 0;
            while i < eci.votes.n {
                let v = *eci.votes.at(i);
                total += v.validator.power.0 as u128;
                // nobody is listed twice
                let mut j = 0; while j < i { assert!(eci.votes.at(j).validator.address != v.validator.address); j += 1; }
                if v.sig_info == Flag(BlockIdFlag::Commit) {
                    // a counted extension carries a signature that was checked, successfully, with the key registered for THIS validator,
                    // over the canonical extension of THIS vote at height-1, this round, this chain
                    let want = CanonicalVoteExtension { extension: v.vote_extension.0, height: (height - 1) as i64, round: eci.round.0 as i64, chain_id: st.chain_id.0 };
                    let mut found = false; let mut k = 0;
                    while k < 4 { if let Some(c) = unsafe { VERIFY_LOG[k] } { if c.ok && c.key == v.validator.address && c.msg == want && Some(c.sig) == v.extension_signature.map(|s| s.0) { found = true; } } k += 1; }
                    assert!(found);
                    signed += v.validator.power.0 as u128;
                } else {
                    assert!(v.vote_extension.is_empty() && v.extension_signature.is_none());    // non-commit votes carry nothing
                }
                i += 1;
            }
            assert!(total > 0);
            assert!(3 * signed > 2 * total);            // strictly more than two thirds of the listed voting power contributed
        }
    }
    #[kani::proof]
    #[kani::unwind(6)]
    #[kani::stub(alloc::fmt::format, crate::vx_stub_format)]
    fn canary_vote_extensions_ok_reachable() {
        unsafe { VERIFY_N = 0; VERIFY_LOG = [None; 4]; }
        let eci = any_eci();
        let st = AppState { chain_id: ChainId(kani::any()), known: [kani::any(), kani::any()] };
        assert!(validate_vote_extensions(&st, 5, &eci).is_err());   // must FAIL
    }

    // ---- validate_extended_commit_against_last_commit: same round, same validators in the same order with the same power and flags ----
    fn eci_of_len(n: usize) -> ExtendedCommitInfo {
        let mut votes = List::new(); let mut i = 0; while i < n { votes.push(any_ext_vote()); i += 1; }
        ExtendedCommitInfo { round: Round(kani::any()), votes }
    }
    /// list lengths are concrete per harness: with symbolic lengths Kani 0.68 reported counterexamples through
    /// `Iterator::zip` that do not reproduce natively
    fn extended_commit_matches_last_commit(n_last: usize, n_eci: usize) {
        let eci = eci_of_len(n_eci);
        let mut votes = List::new(); let mut i = 0;
        while i < n_last { votes.push(VoteInfo { validator: Validator { address: kani::any(), power: Power(kani::any()) }, sig_info: any_flag() }); i += 1; }
        let last = CommitInfo { round: Round(kani::any()), votes };
        let r = validate_extended_commit_against_last_commit(&last, &eci);
        let mut matches = last.round == eci.round && last.votes.n == eci.votes.n;
        if matches {
            let mut i = 0;
            while i < eci.votes.n {
                let (l, e) = (last.votes.at(i), eci.votes.at(i));
                let absent_empty = e.sig_info == Flag(BlockIdFlag::Absent) && e.vote_extension.is_empty() && e.extension_signature.is_none();
                if l.validator.address != e.validator.address || l.validator.power != e.validator.power || (!absent_empty && e.sig_info != l.sig_info) { matches = false; }
                i += 1;
            }
        }
        assert!(r.is_ok() == matches);
    }
    #[kani::proof]
    #[kani::unwind(6)]
    #[kani::stub(alloc::fmt::format, crate::vx_stub_format)]
    fn extended_commit_matches_last_commit_0_0() { extended_commit_matches_last_commit(0, 0); }
    #[kani::proof]
    #[kani::unwind(6)]
    #[kani::stub(alloc::fmt::format, crate::vx_stub_format)]
    fn extended_commit_matches_last_commit_0_1() { extended_commit_matches_last_commit(0, 1); }
    #[kani::proof]
    #[kani::unwind(6)]
    #[kani::stub(alloc::fmt::format, crate::vx_stub_format)]
    fn extended_commit_matches_last_commit_0_2() { extended_commit_matches_last_commit(0, 2); }
    #[kani::proof]
    #[kani::unwind(6)]
    #[kani::stub(alloc::fmt::format, crate::vx_stub_format)]
    fn extended_commit_matches_last_commit_1_0() { extended_commit_matches_last_commit(1, 0); }
    #[kani::proof]
    #[kani::unwind(6)]
    #[kani::stub(alloc::fmt::format, crate::vx_stub_format)]
    fn extended_commit_matches_last_commit_1_1() { extended_commit_matches_last_commit(1, 1); }
    #[kani::proof]
    #[kani::unwind(6)]
    #[kani::stub(alloc::fmt::format, crate::vx_stub_format)]
    fn extended_commit_matches_last_commit_1_2() { extended_commit_matches_last_commit(1, 2); }
    #[kani::proof]
    #[kani::unwind(6)]
    #[kani::stub(alloc::fmt::format, crate::vx_stub_format)]
    fn extended_commit_matches_last_commit_2_0() { extended_commit_matches_last_commit(2, 0); }
    #[kani::proof]
    #[kani::unwind(6)]
    #[kani::stub(alloc::fmt::format, crate::vx_stub_format)]
    fn extended_commit_matches_last_commit_2_1() { extended_commit_matches_last_commit(2, 1); }
    #[kani::proof]
    #[kani::unwind(6)]
    #[kani::stub(alloc::fmt::format, crate::vx_stub_format)]
    fn extended_commit_matches_last_commit_2_2() { extended_commit_matches_last_commit(2, 2); }
'''

UNIT = dict(
    name="c15_vote_extensions", mode="K", properties=["C15"],
    shim_files=["shims/common.rs"],
    prelude=PRELUDE,
    use="use crate::eyre::Result;",
    items=[
        dict(file=F, path="fn validate_vote_extensions"),
        dict(file=F, path="fn verification_key"),
        dict(file=F, path="fn validate_extended_commit_against_last_commit"),
    ],
    harness=HARNESS,
    harnesses=[
        dict(name="vote_extensions_ok_implies_two_thirds_validly_signed", obligation="validate_vote_extensions::ensures#Ok=>no-repeat+each-commit-vote-validly-signed-by-its-validator+3*submitted>2*total",
             bounded="extended commits with at most 2 votes (the per-vote loop is unrolled); powers, heights, rounds over their full domains"),
        dict(name="canary_vote_extensions_ok_reachable", expect="fail"),
    ] + [dict(name="extended_commit_matches_last_commit_%d_%d" % (a_, b_), obligation="validate_extended_commit_against_last_commit[%d last votes,%d extended votes]::ensures#Ok<=>same-round+same-validators-powers-flags-in-order" % (a_, b_), bounded="at most 2 votes") for a_ in range(3) for b_ in range(3)] + [
    ],
    assumptions=["ed25519 verification is an opaque predicate with an arbitrary verdict, logged with key, signature and message; the key registered for a validator address is named by that address",
                 "protobuf encoding of CanonicalVoteExtension is the identity (prost trusted, injective); vote extensions, signatures, chain ids are 8-bit values; addresses 2 bytes",
                 "HashSet / Vec are fixed-capacity lists; try_base_prefixed succeeds for well-sized addresses",
                 "NOT under contract: ProposalHandler::validate_proposal skeleton (empty extended commit acceptable), verify_vote_extension, aggregate_oracle_votes grouping, apply_prices_from_vote_extensions"],
)
