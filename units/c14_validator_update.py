CA = "crates/astria-sequencer/src/checked_actions/mod.rs"
V = "crates/astria-sequencer/src/checked_actions/validator_update.rs"

PRELUDE = r'''
pub trait AssetTransfer { fn transfer_asset_and_amount(&self) -> Option<(IbcPrefixed, u128)>; }
/// pre-Aspen branch: the whole-set representation is outside this unit
pub struct PreAspenSet;
impl PreAspenSet { pub fn get(&self, _k: &VerificationKey) -> Option<()> { if kani::any() { Some(()) } else { None } } pub fn len(&self) -> usize { kani::any() } }
pub trait PreAspenShim: StateRead { fn pre_aspen_get_validator_set(&self) -> eyre::Result<PreAspenSet> { Ok(PreAspenSet) } }
impl<T: StateRead + ?Sized> PreAspenShim for T {}
'''

SETUP = r'''
    fn setup() -> (CheckedValidatorUpdate, [u8; ADDRESS_LEN], [u8; ADDRESS_LEN], u32) {
        reset_store();
        let key: [u8; ADDRESS_LEN] = kani::any();
        let power: u32 = kani::any();
        let action = ValidatorUpdate { power, verification_key: VerificationKey { addr: key }, name: kani::any() };
        let signer: [u8; ADDRESS_LEN] = kani::any();
        store().declare(Key::Sudo);
        store().declare_with(Key::Upgrade(ValidatorUpdateActionChange::NAME), Some(0));   // post-Aspen
        store().declare(Key::ValidatorCount);
        // the stored count is the size of a set of validators held in memory: it cannot be u64::MAX
        if let Some(c) = store().peek_init(Key::ValidatorCount) { kani::assume((c as u64) < u64::MAX); }
        store().declare(Key::Validator(key));
        store().declare(Key::BlockValidatorUpdate(key));
        (CheckedValidatorUpdate { action, tx_signer: signer.into() }, key, signer, power)
    }
'''

HARNESS = SETUP + r'''
    // ---- post-Aspen ValidatorUpdate::execute: entry, count and the block's update set move together ---------
    #[kani::proof]
    #[kani::unwind(10)]
    fn validator_update_execute_contract() {
        let (checked, key, signer, power) = setup();
        let r = checked.execute(State);
        let count0 = store().peek_init(Key::ValidatorCount).map(|v| v as u64);
        let member0 = store().peek_init(Key::Validator(key)).is_some();
        if r.is_ok() {
            assert!(store().peek_init(Key::Sudo).map(val_addr) == Some(signer));       // C02: only the current sudo changes the validator set
            let count1 = store().peek(Key::ValidatorCount).map(|v| v as u64).unwrap();
            let member1 = store().peek(Key::Validator(key)).is_some();
            let c0 = count0.unwrap();
            // the stored count changes exactly as the membership of this key does (so count == size is preserved)
            if power == 0 {
                assert!(member0 && !member1);            // never removes a validator the application does not have
                assert!(c0 > 1 && count1 == c0 - 1);     // never empties the set
            } else {
                assert!(member1 && store().peek(Key::Validator(key)).map(|v| v as u32) == Some(power));
                if member0 { assert!(count1 == c0); } else { assert!(c0 < u64::MAX && count1 == c0 + 1); }
            }
            // the block's update set reports exactly this change for this key
            assert!(store().peek(Key::BlockValidatorUpdate(key)).map(|v| v as u32) == Some(power));
            assert!(store().unchanged_except(&[Key::ValidatorCount, Key::Validator(key), Key::BlockValidatorUpdate(key)]));
        } else {
            assert!(store().nothing_written());
        }
    }
    #[kani::proof]
    #[kani::unwind(10)]
    fn canary_validator_update_ok_reachable() {
        let (checked, _k, _s, _p) = setup();
        assert!(checked.execute(State).is_err());   // must FAIL
    }

    // ---- K1: a removal reported to CometBFT must name a validator CometBFT has ---------------------------------
    // Ghost: CometBFT's set at the start of the block. Mirror invariant for one key before the call:
    //   app has key  <=>  (an update for key is pending in this block ? its power > 0 : CometBFT has key)
    #[kani::proof]
    #[kani::unwind(10)]
    fn removal_names_a_validator_cometbft_has() {
        let (checked, key, _signer, power) = setup();
        let cb_has: bool = kani::any();
        let pending = store().peek_init(Key::BlockValidatorUpdate(key)).map(|v| v as u32);
        let member0 = store().peek_init(Key::Validator(key)).is_some();
        kani::assume(member0 == match pending { Some(p) => p > 0, None => cb_has });   // Mirror holds before
        let r = checked.execute(State);
        if r.is_ok() && power == 0 {
            // the batch returned at end of block contains {key: 0}; CometBFT can apply it only if it has the key
            assert!(cb_has);
        }
    }
'''

UNIT = dict(
    name="c14_validator_update", mode="K", properties=["C14", "C02"],
    shim_files=["shims/common.rs", "shims/seq.rs"],
    prelude=PRELUDE,
    items=[
        dict(file=CA, path="struct TransactionSignerAddressBytes"),
        dict(file=CA, path="impl TransactionSignerAddressBytes/fn as_bytes"),
        dict(file=CA, path="impl From<[u8; ADDRESS_LENGTH]> for TransactionSignerAddressBytes"),
        dict(file=CA, path="impl AddressBytes for TransactionSignerAddressBytes"),
        dict(file=V, path="struct CheckedValidatorUpdate", keep_derives=set()),
        dict(file=V, path="impl CheckedValidatorUpdate/fn do_run_mutable_checks"),
        dict(file=V, path="impl CheckedValidatorUpdate/fn execute"),
        dict(file=V, path="struct Metadata"),
        dict(file=V, path="fn use_pre_aspen_validator_updates"),
    ],
    harness=HARNESS,
    harnesses=[
        dict(name="validator_update_execute_contract", obligation="CheckedValidatorUpdate::execute::ensures#entry+count+block-update-move-together+never-empty+signer-is-sudo+frame"),
        dict(name="canary_validator_update_ok_reachable", expect="fail"),
        dict(name="removal_names_a_validator_cometbft_has", finding="K1", only_for=["C14"], obligation="CheckedValidatorUpdate::execute::ensures#removal-in-update-batch-names-a-validator-CometBFT-has",
             what="post-Aspen: ValidatorUpdate(add X) followed by ValidatorUpdate(remove X) in the same block leaves {X: power 0} in the block's update set although CometBFT never had X"),
    ],
    assumptions=["A-store typed accessors over the symbolic store; the per-block update set is modelled as a read-modify-write of the entry keyed by the action's verification key",
                 "post-Aspen branch only (ValidatorUpdateActionChange activated); the pre-Aspen whole-set representation (ValidatorSet::apply_updates, authority end_block) is not under contract",
                 "App::end_block returning and clearing the update set is not under contract",
                 "precondition: stored validator count < u64::MAX"],
)
