ACC = "crates/astria-sequencer/src/accounts/state_ext.rs"
APP = "crates/astria-sequencer/src/app/mod.rs"

PRELUDE = r'''
vx_insufficient_funds_marker!();
impl AddressBytes for [u8; 20] { fn address_bytes(&self) -> &[u8; ADDRESS_LEN] { (&self[..ADDRESS_LEN]).try_into().unwrap() } }
/// stand-in for std::sync::Arc (exclusive here)
pub struct Arc<T>(pub T);
impl<T> Arc<T> { pub fn new(v: T) -> Self { Arc(v) } pub fn try_unwrap(a: Arc<T>) -> core::result::Result<T, ()> { Ok(a.0) } }
pub static mut APPLIED: u32 = 0;
pub static mut CLEARED_UPDATES: u32 = 0;
pub static mut UPDATES_RETURNED: Option<u8> = None;
#[derive(Clone, Copy)] pub struct InterBlockState { pub fees: [Option<(IbcPrefixed, u128)>; 2], pub updates_id: u8 }
impl StateRead for InterBlockState {}
pub struct BlockFees(pub [Option<(IbcPrefixed, u128)>; 2]);
pub struct BlockFeesIter { f: [Option<(IbcPrefixed, u128)>; 2], i: usize }
impl Iterator for BlockFeesIter { type Item = (IbcPrefixed, u128); fn next(&mut self) -> Option<Self::Item> { while self.i < 2 { let r = self.f[self.i]; self.i += 1; if r.is_some() { return r; } } None } }
impl IntoIterator for BlockFees { type Item = (IbcPrefixed, u128); type IntoIter = BlockFeesIter; fn into_iter(self) -> BlockFeesIter { BlockFeesIter { f: self.0, i: 0 } } }
pub struct BlockUpdates(pub u8);
#[derive(Default, Clone, Copy, PartialEq, Eq)] pub struct CometUpdates(pub u8);
impl BlockUpdates { pub fn try_into_cometbft(self) -> Result<CometUpdates> { Ok(CometUpdates(self.0)) } }
impl InterBlockState {
    pub fn get_block_fees(&self) -> BlockFees { BlockFees(self.fees) }
    pub fn get_block_validator_updates(&self) -> Result<BlockUpdates> { Ok(BlockUpdates(self.updates_id)) }
}
pub struct StateDelta { pub base: InterBlockState }
impl StateDelta { pub fn new(s: InterBlockState) -> Self { StateDelta { base: s } } pub fn clear_block_validator_updates(&mut self) { unsafe { CLEARED_UPDATES += 1; } } }
impl StateRead for StateDelta {}
impl StateWrite for StateDelta {}
pub struct Event;
pub mod abci {
    pub mod request { pub struct EndBlock { pub height: i64 } }
    pub mod response { #[derive(Default)] pub struct EndBlock { pub validator_updates: crate::CometUpdates, pub events: u8, pub consensus_param_updates: u8 } }
}
macro_rules! component { ($n:ident) => { pub struct $n; impl $n { pub fn end_block(_s: &mut Arc<StateDelta>, _e: &abci::request::EndBlock) -> Result<()> { if kani::any() { Ok(()) } else { Err(eyre::Report::new()) } } } } }
component!(AccountsComponent); component!(AuthorityComponent); component!(FeesComponent); component!(IbcComponent);
pub struct App { pub state: InterBlockState }
impl App { pub fn apply(&mut self, _s: StateDelta) -> u8 { unsafe { APPLIED += 1; } 0 } }
'''

HARNESS = r'''
    #[kani::proof]
    #[kani::unwind(10)]
    #[kani::stub(alloc::fmt::format, crate::vx_stub_format)]
    fn end_block_routes_all_block_fees_to_recipient() {
        reset_store();
        unsafe { APPLIED = 0; CLEARED_UPDATES = 0; }
        let a1 = IbcPrefixed(kani::any()); let a2 = IbcPrefixed(kani::any());
        kani::assume(a1 != a2);                                    // the block-fee map has one entry per asset
        let f1: Option<(IbcPrefixed, u128)> = if kani::any() { Some((a1, kani::any())) } else { None };
        let f2: Option<(IbcPrefixed, u128)> = if kani::any() { Some((a2, kani::any())) } else { None };
        let recipient: [u8; 20] = kani::any();
        let r2 = [recipient[0], recipient[1]];
        store().declare(Key::Balance(r2, a1)); store().declare(Key::Balance(r2, a2));
        let mut app = App { state: InterBlockState { fees: [f1, f2], updates_id: kani::any() } };
        let upd = app.state.updates_id;
        let height: u64 = kani::any(); kani::assume(height <= i64::MAX as u64);
        let r = app.end_block(height, &recipient);
        let applied = unsafe { APPLIED };
        match r {
            Ok(resp) => {
                // every asset's block total is credited to the fee recipient, exactly (no saturation), and to nobody else
                let t1 = f1.map_or(0, |f| f.1); let t2 = f2.map_or(0, |f| f.1);
                assert!(bal_init(&r2, a1).checked_add(t1) == Some(bal_now(&r2, a1)));
                assert!(bal_init(&r2, a2).checked_add(t2) == Some(bal_now(&r2, a2)));
                assert!(store().unchanged_except(&[Key::Balance(r2, a1), Key::Balance(r2, a2)]));
                assert!(applied == 1);
                // C14: the batch handed to CometBFT is exactly the block's update set, which is cleared
                assert!(resp.validator_updates == CometUpdates(upd) && unsafe { CLEARED_UPDATES } == 1);
            }
            Err(_) => assert!(applied == 0),       // a failing end_block publishes nothing
        }
    }
    #[kani::proof]
    #[kani::unwind(10)]
    #[kani::stub(alloc::fmt::format, crate::vx_stub_format)]
    fn canary_end_block_ok_reachable() {
        reset_store();
        let a1 = IbcPrefixed(kani::any());
        let recipient: [u8; 20] = kani::any();
        store().declare(Key::Balance([recipient[0], recipient[1]], a1));
        let mut app = App { state: InterBlockState { fees: [Some((a1, kani::any())), None], updates_id: 0 } };
        assert!(app.end_block(1, &recipient).is_err());   // must FAIL
    }
'''

UNIT = dict(
    name="c01_end_block", mode="K", properties=["C01", "C14"],
    shim_files=["shims/common.rs", "shims/seq.rs"],
    prelude=PRELUDE,
    use="use crate::accounts::*;",
    items=[
        dict(file=ACC, path="struct InsufficientFunds", module="accounts"),
        dict(file=ACC, path="trait StateWriteExt/fn increase_balance", module="accounts"),
        dict(file=ACC, path="trait StateWriteExt/fn decrease_balance", module="accounts"),
        dict(file=ACC, path="impl<T: StateWrite> StateWriteExt for T", module="accounts"),
        dict(file=APP, path="impl App/fn end_block"),
    ],
    harness=HARNESS,
    harnesses=[
        dict(name="end_block_routes_all_block_fees_to_recipient", obligation="App::end_block::ensures#all-block-fees-credited-exactly-to-recipient+frame+updates-returned-and-cleared+applied-iff-Ok",
             bounded="block-fee map with at most 2 assets (the fee loop is unrolled)"),
        dict(name="canary_end_block_ok_reachable", expect="fail"),
    ],
    assumptions=["component end_block hooks are arbitrary-outcome no-ops; StateDelta/Arc/apply are stand-ins (apply publishes, counted); abci request/response types are stand-ins",
                 "the block-fee map is a list of at most 2 distinct assets; fee_recipient is [u8;20] in the signature and mapped to the shim's 2-byte address by its first two bytes"],
)
