# refund side of ICS-20: refund_tokens (incl. the rollup branch through the real emit_deposit) and the timeout / acknowledgement handlers.  properties: "C18", "C04", "C01"
import importlib.util, os
_spec = importlib.util.spec_from_file_location("vx_c18_base", os.path.join(os.path.dirname(os.path.abspath(__file__)), "c18_ics20.py"))
_base = importlib.util.module_from_spec(_spec); _spec.loader.exec_module(_base)
ICS = _base.ICS

_P = _base.PRELUDE
_old = "pub mod serde_json { pub fn from_slice(d: &Option<crate::FungibleTokenPacketData>) -> Result<crate::FungibleTokenPacketData, crate::eyre::Report> { d.ok_or(crate::eyre::Report::new()) } }"
assert _P.count(_old) == 1
_P = _P.replace(_old, """pub trait VxFromSlice<I>: Sized { fn vx_from_slice(i: I) -> Option<Self>; }
impl<'a> VxFromSlice<&'a Option<FungibleTokenPacketData>> for FungibleTokenPacketData { fn vx_from_slice(i: &'a Option<FungibleTokenPacketData>) -> Option<Self> { *i } }
pub trait VxFromMemo: Sized { fn vx_from_memo(m: &Memo) -> Option<Self>; }
pub mod serde_json {
    pub fn from_slice<T: crate::VxFromSlice<I>, I>(i: I) -> Result<T, crate::eyre::Report> { T::vx_from_slice(i).ok_or(crate::eyre::Report::new()) }
    pub fn from_str<T: crate::VxFromMemo>(m: &crate::Memo) -> Result<T, crate::eyre::Report> { T::vx_from_memo(m).ok_or(crate::eyre::Report::new()) }
}""")
_old2 = "pub trait AppHandlerExecute { fn recv_packet_execute<S: StateWrite>(state: S, msg: &MsgRecvPacket) -> anyhow::Result<()>; }"
assert _P.count(_old2) == 1
_P = _P.replace(_old2, "pub trait AppHandlerExecute { fn timeout_packet_execute<S: StateWrite>(state: S, msg: &MsgTimeout) -> anyhow::Result<()>; fn acknowledge_packet_execute<S: StateWrite>(state: S, msg: &MsgAcknowledgement) -> anyhow::Result<()>; }")

PRELUDE = _P + r'''
// ---- additions for the refund side -----------------------------------------------------------------------------------------------------
/// memo of a withdrawal that came from a rollup: odd memo values parse, and carry the rollup return address
pub struct Ics20WithdrawalFromRollup { pub rollup_return_address: Text, pub rollup_block_number: u64 }
impl VxFromMemo for Ics20WithdrawalFromRollup { fn vx_from_memo(m: &Memo) -> Option<Self> { if m.0 & 1 == 1 { Some(Ics20WithdrawalFromRollup { rollup_return_address: Text(m.0 >> 1), rollup_block_number: 0 }) } else { None } } }
pub struct Context { pub tx_id: TransactionId, pub source_action_index: u64 }
pub static mut IBC_CONTEXT: Option<(u8, u64)> = None;
pub trait IbcContextShim: StateRead { fn ephemeral_get_ibc_context(&mut self) -> Option<Context> { unsafe { IBC_CONTEXT }.map(|(t, i)| Context { tx_id: TransactionId(t), source_action_index: i }) } }
impl<T: StateRead + ?Sized> IbcContextShim for T {}
impl From<&TracePrefixed> for Denom { fn from(t: &TracePrefixed) -> Self { Denom::TracePrefixed(*t) } }
pub struct MsgTimeout { pub packet: Packet }
/// acknowledgement bytes: what they parse to (None = not a token-transfer acknowledgement, Some(ok)) and whether they are the canonical encoding of that value
/// (JSON admits several encodings of one acknowledgement; byte comparison and parsing are different questions)
#[derive(Clone, Copy, Debug)] pub struct AckField(pub Option<bool>, pub bool);
impl PartialEq<std::vec::Vec<u8>> for AckField { fn eq(&self, o: &std::vec::Vec<u8>) -> bool { self.1 && o.len() == 1 && self.0 == Some(o[0] == 1) } }
impl AckField { pub fn as_slice(&self) -> AckField { *self } }
pub struct MsgAcknowledgement { pub packet: Packet, pub acknowledgement: AckField }
impl VxFromSlice<AckField> for TokenTransferAcknowledgement { fn vx_from_slice(i: AckField) -> Option<Self> { i.0.map(|ok| if ok { TokenTransferAcknowledgement::Success } else { TokenTransferAcknowledgement::Error(String::new()) }) } }
impl TokenTransferAcknowledgement { pub fn is_successful(&self) -> bool { matches!(self, TokenTransferAcknowledgement::Success) } }
pub mod astria_eyre { pub mod anyhow { pub trait Context<T> { fn context<C>(self, c: C) -> crate::anyhow::Result<T>; }
    impl<T> Context<T> for core::result::Result<T, crate::eyre::Report> { fn context<C>(self, _c: C) -> crate::anyhow::Result<T> { self.map_err(|_| crate::anyhow::Error) } } } }
'''

HARNESS = r'''
    struct Setup { packet: Packet, receiver: Address, asset: TracePrefixed, amount: u128, memo: Memo, ke: Key, kb: Key }
    fn setup() -> Setup {
        reset_store();
        let receiver = Address::any(); let asset = TracePrefixed::any(); let amount: u128 = kani::any(); let memo = Memo(kani::any());
        let data = FungibleTokenPacketData { amount: Amount(Some(amount)), receiver: Maybe(None), sender: Maybe(Some(receiver)), denom: Maybe(Some(asset)), memo };
        let packet = Packet { data: Some(data), port_on_a: PortId(kani::any()), chan_on_a: ChannelId(kani::any()), port_on_b: PortId(kani::any()), chan_on_b: ChannelId(kani::any()) };
        let x = asset.to_ibc_prefixed();
        let ke = Key::IbcChannelBalance(packet.chan_on_a.0, x); let kb = Key::Balance(receiver.bytes, x);
        store().declare(ke); store().declare(kb); store().declare(Key::BridgeRollupId(receiver.bytes)); store().declare(Key::BridgeAsset(receiver.bytes));
        unsafe { IBC_CONTEXT = if kani::any() { Some((kani::any(), kani::any())) } else { None }; }
        Setup { packet, receiver, asset, amount, memo, ke, kb }
    }
    /// the accounting a successful refund must have performed
    fn assert_refunded(s: &Setup) {
        let e0 = store().peek_init(s.ke).unwrap_or(0); let b0 = store().peek_init(s.kb).unwrap_or(0);
        let escrowed = !(s.asset.seg[0] == Some((s.packet.port_on_a.0, s.packet.chan_on_a.0)));      // it left as a sequencer-origin asset iff it does not carry the source port/channel prefix
        assert!(b0.checked_add(s.amount) == store().peek(s.kb));                                        // the sender gets back exactly what was sent
        if escrowed { assert!(e0 >= s.amount && store().peek(s.ke) == Some(e0 - s.amount)); } else { assert!(store().peek(s.ke) == store().peek_init(s.ke)); }
        assert!(store().unchanged_except(&[s.ke, s.kb]));
        // a refund to a rollup (memo of a rollup withdrawal) goes to the bridge account and tells the rollup: exactly one deposit, for this amount and asset, to the rollup return address
        let from_rollup = s.memo.0 & 1 == 1;
        assert!(store().n_deposits == if from_rollup { 1 } else { 0 });
        if from_rollup {
            let d = store().deposits[0].clone().unwrap();
            assert!(d.bridge_address == s.receiver && d.amount == s.amount && d.asset == Denom::TracePrefixed(s.asset) && d.destination_chain_address == Text(s.memo.0 >> 1));
            assert!(store().peek_init(Key::BridgeRollupId(s.receiver.bytes)).map(|v| v as u8) == Some(d.rollup_id.0));                     // the receiver IS a bridge account, of that rollup
            assert!(store().peek_init(Key::BridgeAsset(s.receiver.bytes)).map(|v| IbcPrefixed(v as u8)) == Some(s.asset.to_ibc_prefixed()));     // and that bridge accepts this asset
            assert!(unsafe { IBC_CONTEXT } == Some((d.source_transaction_id.0, d.source_action_index)));
        }
    }

    #[kani::proof]
    #[kani::unwind(10)]
    #[kani::stub(alloc::fmt::format, crate::vx_stub_format)]
    fn refund_tokens_contract() {
        let s = setup();
        let r = refund_tokens(State, &s.packet);
        if r.is_ok() { assert_refunded(&s); } else { assert!(store().peek(s.kb) == store().peek_init(s.kb)); }     // no credit on failure (the caller's transaction is dropped)
    }
    #[kani::proof]
    #[kani::unwind(10)]
    #[kani::stub(alloc::fmt::format, crate::vx_stub_format)]
    fn timeout_refunds_exactly_once_or_fails() {
        let s = setup();
        let r = <Ics20Transfer as AppHandlerExecute>::timeout_packet_execute(State, &MsgTimeout { packet: s.packet });
        if r.is_ok() { assert_refunded(&s); } else { assert!(store().peek(s.kb) == store().peek_init(s.kb)); }
    }
    #[kani::proof]
    #[kani::unwind(10)]
    #[kani::stub(alloc::fmt::format, crate::vx_stub_format)]
    fn acknowledgement_refunds_iff_error_ack() {
        let s = setup();
        let ack = AckField(if kani::any() { Some(kani::any()) } else { None }, kani::any());
        let r = <Ics20Transfer as AppHandlerExecute>::acknowledge_packet_execute(State, &MsgAcknowledgement { packet: s.packet, acknowledgement: ack });
        match ack.0 {
            Some(true) => { assert!(r.is_ok()); assert!(store().nothing_written() && store().n_deposits == 0); }     // the transfer succeeded on the other chain: nothing comes back
            Some(false) => { if r.is_ok() { assert_refunded(&s); } else { assert!(store().peek(s.kb) == store().peek_init(s.kb)); } }
            None => { assert!(r.is_err()); assert!(store().nothing_written() && store().n_deposits == 0); }           // an undecodable acknowledgement moves nothing
        }
    }
    #[kani::proof]
    #[kani::unwind(10)]
    #[kani::stub(alloc::fmt::format, crate::vx_stub_format)]
    fn canary_refund_to_rollup_reachable() {
        let s = setup();
        let r = refund_tokens(State, &s.packet);
        assert!(!(r.is_ok() && store().n_deposits == 1));      // must FAIL
    }
'''

UNIT = dict(
    name="c18_refund", mode="K", properties=["C18", "C04", "C01"],
    shim_files=_base.UNIT["shim_files"],
    prelude=PRELUDE,
    use=_base.UNIT.get("use", ""),
    items=[it for it in _base.UNIT["items"] if it["path"] not in ("fn receive_tokens", "impl AppHandlerExecute for Ics20Transfer/fn recv_packet_execute")] + [
        dict(file=ICS, path="fn refund_tokens",
             rewrites=[dict(rule="regex", id="R7.from_slice_type", old=r"let packet_data: FungibleTokenPacketData = serde_json::from_slice\(&packet\.data\)", new="let packet_data: FungibleTokenPacketData = serde_json::from_slice(&packet.data)", count=1)]),
        dict(file=ICS, path="fn does_failed_transfer_come_from_rollup"),
        dict(file=ICS, path="fn emit_deposit", rewrites=[dict(rule="subst", id="R7.String->Text", old="destination_chain_address: String", new="destination_chain_address: Text", count=1)]),
        dict(file=ICS, path="impl AppHandlerExecute for Ics20Transfer/fn timeout_packet_execute"),
        dict(file=ICS, path="impl AppHandlerExecute for Ics20Transfer/fn acknowledge_packet_execute"),
    ],
    harness=HARNESS,
    harnesses=[
        dict(name="refund_tokens_contract", obligation="ics20::refund_tokens::ensures#Ok=>sender-credited-exactly+escrow-released-iff-source-zone+rollup-refund-deposits-exactly-once-to-the-bridge+frame"),
        dict(name="timeout_refunds_exactly_once_or_fails", obligation="Ics20Transfer::timeout_packet_execute::ensures#Ok=>refund-accounting;Err=>no-credit"),
        dict(name="acknowledgement_refunds_iff_error_ack", obligation="Ics20Transfer::acknowledge_packet_execute::ensures#success-ack=>nothing-moves;error-ack=>refund-accounting;undecodable=>Err+nothing-moves"),
        dict(name="canary_refund_to_rollup_reachable", expect="fail"),
    ],
    harness_timeout=1200,
    assumptions=_base.UNIT["assumptions"][:2] + ["memo parsing: odd memo values parse as Ics20WithdrawalFromRollup carrying a return address; acknowledgement bytes are carried pre-parsed; the ephemeral IBC context is one arbitrary optional value",
                 "emit_deposit is the real text (destination address String -> Text); create_deposit_event counts events; a failed refund returns Err to the IbcRelay action, whose transaction delta is dropped by App::execute_transaction (unit c03_tx)"],
)
