CA = "crates/astria-sequencer/src/checked_actions/mod.rs"
D = "crates/astria-sequencer/src/checked_actions/"

PRELUDE = r'''
pub trait AssetTransfer { fn transfer_asset_and_amount(&self) -> Option<(IbcPrefixed, u128)>; }
#[derive(Clone, Debug)] pub struct SudoAddressChange { pub new_address: Address }
#[derive(Clone, Debug)] pub struct IbcSudoChange { pub new_address: Address }
#[derive(Clone, Debug)] pub struct BridgeSudoChange { pub bridge_address: Address, pub new_sudo_address: Option<Address>, pub new_withdrawer_address: Option<Address>,
                                                     pub fee_asset: asset::Denom, pub disable_deposits: bool }
#[derive(Clone, Copy, Debug)] pub enum IbcRelayerChange { Addition(Address), Removal(Address) }
'''

HARNESS = r'''
    // For every privileged action: execute == Ok  ==>  the signer is the authority that holds the privilege
    // in the pre-state of this very call, and only the action's own key family is written.
    #[kani::proof]
    #[kani::unwind(10)]
    fn sudo_address_change_contract() {
        reset_store();
        let action = SudoAddressChange { new_address: Address::any() };
        let signer: [u8; ADDRESS_LEN] = kani::any();
        store().declare(Key::Sudo);
        store().allow_io_err = true;
        let new = action.new_address.bytes;
        let checked = CheckedSudoAddressChange { action, tx_signer: signer.into() };
        let r = checked.execute(State);
        if r.is_ok() {
            assert!(store().peek_init(Key::Sudo).map(val_addr) == Some(signer));
            assert!(store().peek(Key::Sudo).map(val_addr) == Some(new));
            assert!(store().unchanged_except(&[Key::Sudo]));
        } else { assert!(store().nothing_written()); }
    }
    #[kani::proof]
    #[kani::unwind(10)]
    fn ibc_sudo_change_contract() {
        reset_store();
        let action = IbcSudoChange { new_address: Address::any() };
        let signer: [u8; ADDRESS_LEN] = kani::any();
        store().declare(Key::Sudo);
        store().declare(Key::IbcSudo);
        store().allow_io_err = true;
        let new = action.new_address.bytes;
        let checked = CheckedIbcSudoChange { action, tx_signer: signer.into() };
        let r = checked.execute(State);
        if r.is_ok() {
            assert!(store().peek_init(Key::Sudo).map(val_addr) == Some(signer));       // only the chain sudo may name the IBC sudo
            assert!(store().peek(Key::IbcSudo).map(val_addr) == Some(new));
            assert!(store().unchanged_except(&[Key::IbcSudo]));
        } else { assert!(store().nothing_written()); }
    }
    #[kani::proof]
    #[kani::unwind(10)]
    fn ibc_relayer_change_contract() {
        reset_store();
        let addr = Address::any();
        let action = if kani::any() { IbcRelayerChange::Addition(addr) } else { IbcRelayerChange::Removal(addr) };
        let signer: [u8; ADDRESS_LEN] = kani::any();
        store().declare(Key::IbcSudo);
        store().declare(Key::IbcRelayer(addr.bytes));
        store().allow_io_err = true;
        let checked = CheckedIbcRelayerChange { action, tx_signer: signer.into() };
        let r = checked.execute(State);
        if r.is_ok() {
            assert!(store().peek_init(Key::IbcSudo).map(val_addr) == Some(signer));
            match action {
                IbcRelayerChange::Addition(_) => assert!(store().peek(Key::IbcRelayer(addr.bytes)).is_some()),
                IbcRelayerChange::Removal(_) => assert!(store().peek(Key::IbcRelayer(addr.bytes)).is_none()),
            }
            assert!(store().unchanged_except(&[Key::IbcRelayer(addr.bytes)]));
        } else { assert!(store().nothing_written()); }
    }
    #[kani::proof]
    #[kani::unwind(10)]
    fn bridge_sudo_change_contract() {
        reset_store();
        let action = BridgeSudoChange { bridge_address: Address::any(),
            new_sudo_address: if kani::any() { Some(Address::any()) } else { None },
            new_withdrawer_address: if kani::any() { Some(Address::any()) } else { None },
            fee_asset: Denom::any(), disable_deposits: kani::any() };
        let signer: [u8; ADDRESS_LEN] = kani::any();
        let b = action.bridge_address.bytes;
        store().declare(Key::BridgeSudo(b));
        store().declare(Key::BridgeWithdrawer(b));
        store().declare(Key::BridgeDisabled(b));
        store().declare(Key::Upgrade(DisableableBridgeAccountDeposits::NAME));
        let a2 = action.clone();
        let checked = CheckedBridgeSudoChange { action, tx_signer: signer.into() };
        let r = checked.execute(State);
        if r.is_ok() {
            // the signer is the bridge account's sudo in the pre-state (a former sudo, or the withdrawer, cannot do this)
            assert!(store().peek_init(Key::BridgeSudo(b)).map(val_addr) == Some(signer));
            if let Some(n) = a2.new_sudo_address { assert!(store().peek(Key::BridgeSudo(b)).map(val_addr) == Some(n.bytes)); }
            else { assert!(store().peek(Key::BridgeSudo(b)) == store().peek_init(Key::BridgeSudo(b))); }
            if let Some(n) = a2.new_withdrawer_address { assert!(store().peek(Key::BridgeWithdrawer(b)).map(val_addr) == Some(n.bytes)); }
            else { assert!(store().peek(Key::BridgeWithdrawer(b)) == store().peek_init(Key::BridgeWithdrawer(b))); }
            // privileged per-bridge state only
            assert!(store().unchanged_except(&[Key::BridgeSudo(b), Key::BridgeWithdrawer(b), Key::BridgeDisabled(b)]));
        } else { assert!(store().nothing_written()); }
    }
    #[kani::proof]
    #[kani::unwind(10)]
    fn canary_bridge_sudo_change_ok_reachable() {
        reset_store();
        let action = BridgeSudoChange { bridge_address: Address::any(), new_sudo_address: Some(Address::any()), new_withdrawer_address: None, fee_asset: Denom::any(), disable_deposits: false };
        let signer: [u8; ADDRESS_LEN] = kani::any();
        let b = action.bridge_address.bytes;
        store().declare(Key::BridgeSudo(b)); store().declare(Key::BridgeWithdrawer(b)); store().declare(Key::BridgeDisabled(b));
        store().declare(Key::Upgrade(DisableableBridgeAccountDeposits::NAME));
        let checked = CheckedBridgeSudoChange { action, tx_signer: signer.into() };
        assert!(checked.execute(State).is_err());   // must FAIL
    }
'''

def act(file, ty):
    return [
        dict(file=D + file, path="struct %s" % ty, keep_derives=set()),
        dict(file=D + file, path="impl %s/fn run_mutable_checks" % ty),
        dict(file=D + file, path="impl %s/fn execute" % ty),
    ]

UNIT = dict(
    name="c02_authority", mode="K", properties=["C02"],
    shim_files=["shims/common.rs", "shims/seq.rs"],
    prelude=PRELUDE,
    items=[
        dict(file=CA, path="struct TransactionSignerAddressBytes"),
        dict(file=CA, path="impl TransactionSignerAddressBytes/fn as_bytes"),
        dict(file=CA, path="impl From<[u8; ADDRESS_LENGTH]> for TransactionSignerAddressBytes"),
        dict(file=CA, path="impl AddressBytes for TransactionSignerAddressBytes"),
    ] + act("sudo_address_change.rs", "CheckedSudoAddressChange") + act("ibc_sudo_change.rs", "CheckedIbcSudoChange")
      + act("ibc_relayer_change.rs", "CheckedIbcRelayerChange") + act("bridge_sudo_change.rs", "CheckedBridgeSudoChange")
      + [dict(file=D + "bridge_sudo_change.rs", path="fn accounts_are_disableable")],
    harness=HARNESS,
    harnesses=[
        dict(name="sudo_address_change_contract", obligation="CheckedSudoAddressChange::execute::ensures#signer-is-current-sudo+frame"),
        dict(name="ibc_sudo_change_contract", obligation="CheckedIbcSudoChange::execute::ensures#signer-is-current-sudo+frame"),
        dict(name="ibc_relayer_change_contract", obligation="CheckedIbcRelayerChange::execute::ensures#signer-is-current-ibc-sudo+frame"),
        dict(name="bridge_sudo_change_contract", obligation="CheckedBridgeSudoChange::execute::ensures#signer-is-current-bridge-sudo+frame"),
        dict(name="canary_bridge_sudo_change_ok_reachable", expect="fail"),
    ],
    assumptions=["A-store typed accessors over the symbolic store (shims/seq.rs)", "action structs are shim copies with the same field names",
                 "R1b: the `#[cfg(test)]` early return inside CheckedIbcRelayerChange::run_mutable_checks is deleted, as the compiler does in a non-test build",
                 "not under contract here: FeeChange, FeeAssetChange, ValidatorUpdate (unit c14), CurrencyPairsChange, MarketsChange, InitBridgeAccount, IbcRelay, RecoverIbcClient"],
)
