F = "crates/astria-sequencer-relayer/src/relayer/submission.rs"

PRELUDE = r'''
#[derive(Clone, Copy, Debug, PartialEq, Eq, PartialOrd, Ord)]
pub struct SequencerHeight(pub u64);
impl SequencerHeight { pub fn value(&self) -> u64 { self.0 } }
impl From<u8> for SequencerHeight { fn from(v: u8) -> Self { SequencerHeight(v as u64) } }
impl std::fmt::Display for SequencerHeight { fn fmt(&self, _f: &mut std::fmt::Formatter<'_>) -> std::fmt::Result { Ok(()) } }
#[derive(Clone, Copy, Debug, PartialEq, Eq)] pub struct BlobTxHash(pub u8);
#[derive(Clone, Copy, Debug, PartialEq, Eq)] pub struct SystemTime(pub u8);
impl SystemTime { pub fn now() -> Self { SystemTime(kani::any()) } }
#[derive(Clone, Copy, Debug, PartialEq, Eq)] pub enum PathBuf { StateFile, TempFile }
impl PathBuf { pub fn display(&self) -> u8 { 0 } }

// ---- file system stand-in: two cells and a log of what happened to the durable state file ----------------------
pub static mut FS_STATE_FILE: Option<State> = None;       // durable state file (always a complete JSON document or absent)
pub static mut FS_TEMP_FILE: Option<State> = None;
pub static mut FS_STATE_FILE_WRITTEN_DIRECTLY: bool = false;   // a non-atomic write hit the state file itself
pub static mut FS_OPS: u32 = 0;
pub mod serde_json {
    /// JSON encoding of the submission state: identity here (serde round-trip trusted)
    pub fn to_string_pretty(s: &crate::State) -> Result<crate::State, crate::eyre::Report> { Ok(s.clone()) }
    pub fn from_str(s: &crate::State) -> Result<crate::State, crate::eyre::Report> { Ok(s.clone()) }
}
pub mod tokio { pub mod fs {
    use crate::*;
    pub fn write(path: &PathBuf, contents: &State) -> Result<(), eyre::Report> {
        if kani::any() { return Err(eyre::Report::new()); }      // any write may fail (disk full, crash before completion)
        unsafe { FS_OPS += 1; match path { PathBuf::TempFile => FS_TEMP_FILE = Some(contents.clone()), PathBuf::StateFile => { FS_STATE_FILE = Some(contents.clone()); FS_STATE_FILE_WRITTEN_DIRECTLY = true; } } }
        Ok(())
    }
    /// POSIX rename: atomic replacement of the destination
    pub fn rename(from: &PathBuf, to: &PathBuf) -> Result<(), eyre::Report> {
        if kani::any() { return Err(eyre::Report::new()); }
        unsafe { FS_OPS += 1; let src = match from { PathBuf::TempFile => FS_TEMP_FILE.take(), PathBuf::StateFile => FS_STATE_FILE.take() };
                 assert!(src.is_some()); match to { PathBuf::StateFile => FS_STATE_FILE = src, PathBuf::TempFile => FS_TEMP_FILE = src } }
        Ok(())
    }
    /// copy: the destination is (truncated and) written in place — not atomic
    pub fn copy(from: &PathBuf, to: &PathBuf) -> Result<u64, eyre::Report> {
        if kani::any() { return Err(eyre::Report::new()); }
        unsafe { FS_OPS += 1; let src = match from { PathBuf::TempFile => FS_TEMP_FILE.clone(), PathBuf::StateFile => FS_STATE_FILE.clone() };
                 assert!(src.is_some()); match to { PathBuf::StateFile => { FS_STATE_FILE = src; FS_STATE_FILE_WRITTEN_DIRECTLY = true; } PathBuf::TempFile => FS_TEMP_FILE = src } }
        Ok(0)
    }
    pub fn remove_file(path: &PathBuf) -> Result<(), eyre::Report> {
        if kani::any() { return Err(eyre::Report::new()); }
        unsafe { FS_OPS += 1; match path { PathBuf::TempFile => FS_TEMP_FILE = None, PathBuf::StateFile => { FS_STATE_FILE = None; FS_STATE_FILE_WRITTEN_DIRECTLY = true; } } }
        Ok(())
    }
    pub fn read_to_string(path: &PathBuf) -> Result<State, eyre::Report> {
        unsafe { match path { PathBuf::StateFile => FS_STATE_FILE.clone(), PathBuf::TempFile => FS_TEMP_FILE.clone() } }.ok_or(eyre::Report::new())
    }
} }
pub mod std_time { pub use crate::SystemTime; }
'''

HARNESS = r'''
    fn paths() -> (StateFilePath, TempFilePath) { (StateFilePath(PathBuf::StateFile), TempFilePath(PathBuf::TempFile)) }
    fn any_completed() -> CompletedSubmission { CompletedSubmission { celestia_height: kani::any(), sequencer_height: SequencerHeight(kani::any()) } }
    fn any_state() -> State {
        let k: u8 = kani::any();
        match k % 3 {
            0 => State::Fresh,
            1 => State::Started { last_submission: any_completed() },
            _ => State::Prepared { sequencer_height: SequencerHeight(kani::any()), last_submission: any_completed(), blob_tx_hash: BlobTxHash(kani::any()), at: SystemTime(kani::any()) },
        }
    }
    fn init_fs() -> Option<State> {
        let old = if kani::any() { Some(any_state()) } else { None };
        unsafe { FS_STATE_FILE = old.clone(); FS_TEMP_FILE = None; FS_STATE_FILE_WRITTEN_DIRECTLY = false; FS_OPS = 0; }
        old
    }
    fn file() -> Option<State> { unsafe { FS_STATE_FILE.clone() } }

    // ---- State::write: the durable file is only ever replaced atomically, by exactly the new state ---------------
    #[kani::proof]
    #[kani::unwind(4)]
    #[kani::stub(alloc::fmt::format, crate::vx_stub_format)]
    fn state_write_is_atomic_replace() {
        let old = init_fs();
        let (sp, tp) = paths();
        let new = any_state();
        let r = new.write(&sp, &tp);
        assert!(!unsafe { FS_STATE_FILE_WRITTEN_DIRECTLY });              // never written in place: a crash cannot leave a torn file
        if r.is_ok() { assert!(file() == Some(new)); } else { assert!(file() == old); }   // all or nothing
    }

    // ---- State::read: a Prepared record is accepted only if it is ahead of the last confirmed height ----------------
    #[kani::proof]
    #[kani::unwind(4)]
    #[kani::stub(alloc::fmt::format, crate::vx_stub_format)]
    fn state_read_validates() {
        let old = init_fs();
        let (sp, _tp) = paths();
        match State::read(&sp) {
            Ok(s) => { assert!(Some(s.clone()) == old);
                       if let State::Prepared { sequencer_height, last_submission, .. } = s { assert!(sequencer_height > last_submission.sequencer_height); } }
            Err(_) => {}
        }
    }

    // ---- transitions: what each one may record as "last successfully submitted" --------------------------------------
    #[kani::proof]
    #[kani::unwind(4)]
    #[kani::stub(alloc::fmt::format, crate::vx_stub_format)]
    fn prepared_construct_and_write_contract() {
        let old = init_fs();
        let (sp, tp) = paths();
        let h = SequencerHeight(kani::any()); let last = any_completed(); let hash = BlobTxHash(kani::any());
        let r = PreparedSubmission::construct_and_write(h, last, hash, sp, tp);
        match r {
            Ok(p) => {
                assert!(h > last.sequencer_height);                         // the in-flight height is strictly beyond the confirmed one
                assert!(p.sequencer_height == h && p.last_submission == last && p.blob_tx_hash == hash);
                // prepared is on disk before the caller can broadcast; `last_submission` is carried over unchanged
                assert!(matches!(file(), Some(State::Prepared { sequencer_height, last_submission, blob_tx_hash, .. }) if sequencer_height == h && last_submission == last && blob_tx_hash == hash));
            }
            Err(_) => assert!(file() == old),
        }
    }
    #[kani::proof]
    #[kani::unwind(4)]
    #[kani::stub(alloc::fmt::format, crate::vx_stub_format)]
    fn prepared_into_started_and_revert_contract() {
        let old = init_fs();
        let (sp, tp) = paths();
        let p = PreparedSubmission { sequencer_height: SequencerHeight(kani::any()), last_submission: any_completed(), blob_tx_hash: BlobTxHash(kani::any()),
                                     created_at: SystemTime(kani::any()), state_file_path: sp, temp_file_path: tp };
        let (h, last) = (p.sequencer_height, p.last_submission);
        if kani::any() {
            let ch: u64 = kani::any();
            match p.into_started(ch) {
                // confirmation: the recorded last submission becomes exactly the height that was in flight
                Ok(s) => { assert!(s.last_submission == CompletedSubmission { celestia_height: ch, sequencer_height: h });
                           assert!(file() == Some(State::Started { last_submission: s.last_submission })); }
                Err(_) => assert!(file() == old),
            }
        } else {
            match p.revert() {
                // revert: the in-flight height is forgotten, the last confirmed submission is kept as it was
                Ok(s) => { assert!(s.last_submission == last); assert!(file() == Some(State::Started { last_submission: last })); }
                Err(_) => assert!(file() == old),
            }
        }
    }
    #[kani::proof]
    #[kani::unwind(4)]
    #[kani::stub(alloc::fmt::format, crate::vx_stub_format)]
    fn canary_state_write_ok_reachable() {
        let _old = init_fs();
        let (sp, tp) = paths();
        assert!(any_state().write(&sp, &tp).is_err());     // must FAIL: a write can succeed
    }
    #[kani::proof]
    #[kani::unwind(4)]
    #[kani::stub(alloc::fmt::format, crate::vx_stub_format)]
    fn canary_prepared_record_reachable() {
        let _old = init_fs();
        let (sp, tp) = paths();
        let r = PreparedSubmission::construct_and_write(SequencerHeight(kani::any()), any_completed(), BlobTxHash(kani::any()), sp, tp);
        assert!(r.is_err());                               // must FAIL
        std::mem::forget(r);
    }
    #[kani::proof]
    #[kani::unwind(4)]
    fn last_completed_height_contract() {
        let (sp, tp) = paths();
        let last = any_completed();
        let st = SubmissionStateAtStartup::Started(StartedSubmission { last_submission: last, state_file_path: sp.clone(), temp_file_path: tp.clone() });
        assert!(st.last_completed_sequencer_height() == Some(last.sequencer_height));
        let pr = SubmissionStateAtStartup::Prepared(PreparedSubmission { sequencer_height: SequencerHeight(kani::any()), last_submission: last, blob_tx_hash: BlobTxHash(0),
                                                                         created_at: SystemTime(0), state_file_path: sp.clone(), temp_file_path: tp.clone() });
        assert!(pr.last_completed_sequencer_height() == Some(last.sequencer_height));   // restart resumes after the CONFIRMED height, not the in-flight one
        let fr = SubmissionStateAtStartup::Fresh(FreshSubmission { state_file_path: sp, temp_file_path: tp });
        assert!(fr.last_completed_sequencer_height().is_none());
    }
'''

UNIT = dict(
    name="c11_submission", mode="K", properties=["C11"],
    shim_files=["shims/common.rs"],
    prelude=PRELUDE,
    use="use crate::eyre as eyre_mod;",
    items=[
        dict(file=F, path="struct CompletedSubmission", keep_derives={"Clone", "Copy", "Debug", "PartialEq", "Eq"}),
        dict(file=F, path="impl CompletedSubmission/fn new"),
        dict(file=F, path="struct StateFilePath"),
        dict(file=F, path="struct TempFilePath"),
        dict(file=F, path="enum State", keep_derives={"Clone", "Debug", "PartialEq", "Eq"}),
        dict(file=F, path="impl State/fn new_started"),
        dict(file=F, path="impl State/fn new_prepared"),
        dict(file=F, path="impl State/fn read"),
        dict(file=F, path="impl State/fn write"),
        dict(file=F, path="struct FreshSubmission"),
        dict(file=F, path="impl FreshSubmission/fn into_started"),
        dict(file=F, path="struct StartedSubmission"),
        dict(file=F, path="impl StartedSubmission/fn construct_and_write"),
        dict(file=F, path="impl StartedSubmission/fn into_prepared"),
        dict(file=F, path="struct PreparedSubmission"),
        dict(file=F, path="impl PreparedSubmission/fn construct_and_write"),
        dict(file=F, path="impl PreparedSubmission/fn into_started"),
        dict(file=F, path="impl PreparedSubmission/fn revert"),
        dict(file=F, path="enum SubmissionStateAtStartup"),
        dict(file=F, path="impl SubmissionStateAtStartup/fn last_completed_sequencer_height"),
    ],
    harness=HARNESS,
    harnesses=[
        dict(name="state_write_is_atomic_replace", obligation="submission::State::write::ensures#temp-then-rename+all-or-nothing"),
        dict(name="state_read_validates", obligation="submission::State::read::ensures#Prepared-ahead-of-last-confirmed"),
        dict(name="prepared_construct_and_write_contract", obligation="PreparedSubmission::construct_and_write::ensures#height-beyond-confirmed+durable-before-return+last-unchanged"),
        dict(name="prepared_into_started_and_revert_contract", obligation="PreparedSubmission::into_started+revert::ensures#last-advances-only-to-in-flight-height/revert-keeps-last"),
        dict(name="canary_state_write_ok_reachable", expect="fail"),
        dict(name="canary_prepared_record_reachable", expect="fail"),
        dict(name="last_completed_height_contract", obligation="SubmissionStateAtStartup::last_completed_sequencer_height::ensures#confirmed-height-not-in-flight"),
    ],
    assumptions=["file system = two cells (state file, temp file); tokio::fs::write may fail, rename is atomic (POSIX) and may fail; serde_json round-trip is the identity",
                 "crash model: a crash between two file-system operations leaves the cells as they are; the obligations show the state file is never written in place",
                 "NOT under contract in this build: relayer/write/mod.rs (try_submit ordering: prepared written before broadcast, into_started only after confirmation, skip test) and the startup confirm/revert logic; the gap-freedom lemma of DESIGN §6 C11 is therefore argued over these contracts only, not mechanised"],
)
