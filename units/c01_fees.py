ACC = "crates/astria-sequencer/src/accounts/state_ext.rs"
UT = "crates/astria-sequencer/src/checked_actions/utils.rs"
CA = "crates/astria-sequencer/src/checked_actions/checked_action.rs"
ER = "crates/astria-sequencer/src/checked_actions/error.rs"
FS = "crates/astria-sequencer/src/fees/state_ext.rs"
FC = "crates/astria-core/src/protocol/fees/v1.rs"

PRELUDE = r'''
use std::marker::PhantomData;
pub type Report = eyre::Report;
pub struct StoredValue<'a>(pub PhantomData<&'a ()>);

/// shim of fees::FeeHandler (same method set); the harness instantiates it with an arbitrary action
pub trait FeeHandler: Send {
    fn name(&self) -> &'static str;
    fn full_name() -> String;
    fn snake_case_name() -> &'static str;
    fn variable_component(&self) -> u128;
    fn fee_asset(&self) -> Option<&Denom>;
    const KIND: u8;
}
pub struct AnyAction { pub variable: u128, pub fee_asset: Option<Denom> }
impl FeeHandler for AnyAction {
    fn name(&self) -> &'static str { "AnyAction" }
    fn full_name() -> String { String::new() }
    fn snake_case_name() -> &'static str { "any_action" }
    fn variable_component(&self) -> u128 { self.variable }
    fn fee_asset(&self) -> Option<&Denom> { self.fee_asset.as_ref() }
    const KIND: u8 = 1;
}
impl<'a> TryFrom<StoredValue<'a>> for FeeComponents<AnyAction> { type Error = Report; fn try_from(_: StoredValue<'a>) -> Result<Self, Report> { Err(Report::new()) } }

/// typed accessor: fee components of action kind F live under Fees(KIND) (base) and Fees(KIND|0x80) (multiplier)
pub trait FeesReadShim: StateRead {
    fn get_fees<'a, F>(&self) -> eyre::Result<Option<FeeComponents<F>>>
    where F: FeeHandler + ?Sized, FeeComponents<F>: TryFrom<StoredValue<'a>, Error = Report> {
        match store().get(Key::Fees(F::KIND)) {
            None => Ok(None),
            Some(base) => Ok(Some(FeeComponents::new(base, store().get(Key::Fees(F::KIND | 0x80)).unwrap_or(0)))),
        }
    }
}
impl<T: StateRead + ?Sized> FeesReadShim for T {}

impl From<&Denom> for IbcPrefixed { fn from(d: &Denom) -> Self { d.to_ibc_prefixed() } }
impl From<&IbcPrefixed> for IbcPrefixed { fn from(d: &IbcPrefixed) -> Self { *d } }

/// ephemeral object store of the delta: only the block-fee map lives here in this unit
pub mod keys { pub const BLOCK: &str = "fees/block"; }
#[derive(Clone, Copy, Debug)]
pub struct HashMap<K, V> { pub items: [Option<(K, V)>; 2] }
impl<K, V> Default for HashMap<K, V> { fn default() -> Self { HashMap { items: [None, None] } } }
pub struct Entry<'a, V> { slot: &'a mut V }
impl<'a> Entry<'a, u128> { pub fn or_default(self) -> &'a mut u128 { self.slot } }
impl HashMap<IbcPrefixed, u128> {
    pub fn entry(&mut self, k: IbcPrefixed) -> Entry<'_, u128> {
        let idx = if let Some((k0, _)) = self.items[0] { if k0 == k { 0 } else { 1 } } else { 0 };
        if idx == 1 { if let Some((k1, _)) = self.items[1] { assert!(k1 == k, "block fee map capacity (2 assets) exceeded"); } }
        if self.items[idx].is_none() { self.items[idx] = Some((k, 0)); }
        Entry { slot: &mut self.items[idx].as_mut().unwrap().1 }
    }
    pub fn get(&self, k: &IbcPrefixed) -> u128 {
        let mut r = 0;
        if let Some((k0, v)) = self.items[0] { if k0 == *k { r = v; } }
        if let Some((k1, v)) = self.items[1] { if k1 == *k { r = v; } }
        r
    }
}
pub static mut BLOCK_FEES: Option<HashMap<IbcPrefixed, u128>> = None;
pub trait ObjectStoreShim: StateRead {
    fn object_get(&self, _key: &'static str) -> Option<HashMap<IbcPrefixed, u128>> { unsafe { BLOCK_FEES } }
}
impl<T: StateRead + ?Sized> ObjectStoreShim for T {}
pub trait ObjectStoreWriteShim: StateWrite {
    fn object_put(&mut self, _key: &'static str, v: HashMap<IbcPrefixed, u128>) { unsafe { BLOCK_FEES = Some(v); } }
}
impl<T: StateWrite + ?Sized> ObjectStoreWriteShim for T {}
pub struct Event;
/// R8 hoist: construction of the `tx.fees` ABCI event (string formatting of its attributes) is reporting only
pub fn vx_fee_event() -> Event { Event }
impl From<CheckedActionFeeError> for CheckedActionExecutionError { fn from(e: CheckedActionFeeError) -> Self { CheckedActionExecutionError::Fee(e) } }
#[derive(Debug)]
pub enum CheckedActionExecutionError { Fee(CheckedActionFeeError), Execution }
vx_insufficient_funds_marker!();
use crate::accounts::InsufficientFunds;
'''

HARNESS = r'''
    fn any_action() -> AnyAction {
        AnyAction { variable: kani::any(), fee_asset: if kani::any() { Some(Denom::IbcPrefixed(IbcPrefixed(kani::any()))) } else { None } }
    }

    // ---- fee(): exact formula ---------------------------------------------------------------------------
    #[kani::proof]
    #[kani::unwind(10)]
    #[kani::stub(alloc::fmt::format, crate::vx_stub_format)]
    fn fee_is_base_plus_multiplier_times_size() {
        reset_store();
        let action = any_action();
        store().declare(Key::Fees(1));
        store().declare(Key::Fees(1 | 0x80));
        if let Some(d) = action.fee_asset { store().declare(Key::FeeAssetAllowed(d.to_ibc_prefixed())); }
        let st = State;
        let r = fee(&action, &st);
        let base = store().peek_init(Key::Fees(1));
        let mult = store().peek_init(Key::Fees(1 | 0x80)).unwrap_or(0);
        match r {
            Ok(Some((asset, total))) => {
                let b = base.unwrap();                         // a fee is charged only if fees are configured for the action
                assert!(Some(asset) == action.fee_asset.as_ref());
                assert!(store().peek_init(Key::FeeAssetAllowed(asset.to_ibc_prefixed())).is_some());   // and the asset is an allowed fee asset
                // exact, in mathematical integers: total == base + multiplier * size (never a saturated or wrapped value)
                let exact = action.variable.checked_mul(mult).and_then(|v| b.checked_add(v));   // same operand order as the code: SAT cannot prove commutativity of a 128-bit product
                assert!(exact == Some(total));
            }
            Ok(None) => assert!(action.fee_asset.is_none() && base.is_some()),
            Err(_) => {}
        }
        assert!(store().nothing_written());
    }

    // ---- pay_fee(): debited from the signer only, credited to the block fees, exactly ------------------------
    #[kani::proof]
    #[kani::unwind(10)]
    #[kani::stub(alloc::fmt::format, crate::vx_stub_format)]
    fn pay_fee_debits_signer_credits_block_fees() {
        reset_store();
        let action = any_action();
        let signer: [u8; ADDRESS_LEN] = kani::any();
        store().declare(Key::Fees(1));
        store().declare(Key::Fees(1 | 0x80));
        let x = match action.fee_asset { Some(d) => d.to_ibc_prefixed(), None => IbcPrefixed(0) };
        store().declare(Key::FeeAssetAllowed(x));
        store().declare(Key::Balance(signer, x));
        let fees0: HashMap<IbcPrefixed, u128> = HashMap { items: [if kani::any() { Some((IbcPrefixed(kani::any()), kani::any())) } else { None }, None] };
        unsafe { BLOCK_FEES = if kani::any() { Some(fees0) } else { None }; }
        let before = unsafe { BLOCK_FEES }.unwrap_or_default();
        // what the action's fee is according to fee() (obligation above: exact formula) in this very state
        let st = State;
        let quoted = fee(&action, &st);
        let r = pay_fee(&action, &signer, kani::any(), State);
        let after = unsafe { BLOCK_FEES }.unwrap_or_default();
        let b0 = bal_init(&signer, x);
        if r.is_ok() {
            match quoted {
                Ok(Some((asset, t))) => {
                    assert!(asset.to_ibc_prefixed() == x);
                    assert!(b0 >= t && bal_now(&signer, x) == b0 - t);                    // the signer pays exactly the quoted fee
                    assert!(before.get(&x).checked_add(t) == Some(after.get(&x)));         // block fees grow by exactly the same amount
                }
                Ok(None) => assert!(bal_now(&signer, x) == b0 && after.get(&x) == before.get(&x)),
                Err(_) => assert!(false),                                                  // no payment succeeds when no fee can be quoted
            }
            // frame: no other balance, no other asset's block fee
            assert!(store().unchanged_except(&[Key::Balance(signer, x)]));
            let other = IbcPrefixed(kani::any());
            if other != x { assert!(after.get(&other) == before.get(&other)); }
        } else {
            assert!(bal_now(&signer, x) == b0);    // a failed payment debits nothing
        }
    }
    #[kani::proof]
    #[kani::unwind(10)]
    #[kani::stub(alloc::fmt::format, crate::vx_stub_format)]
    fn canary_pay_fee_ok_reachable() {
        reset_store();
        let action = any_action();
        let signer: [u8; ADDRESS_LEN] = kani::any();
        store().declare(Key::Fees(1));
        store().declare(Key::Fees(1 | 0x80));
        let x = match action.fee_asset { Some(d) => d.to_ibc_prefixed(), None => IbcPrefixed(0) };
        store().declare(Key::FeeAssetAllowed(x));
        store().declare(Key::Balance(signer, x));
        unsafe { BLOCK_FEES = None; }
        kani::assume(action.fee_asset.is_some());
        assert!(pay_fee(&action, &signer, 0, State).is_err());   // must FAIL
    }
'''

UNIT = dict(
    name="c01_fees", mode="K", properties=["C01"],
    shim_files=["shims/common.rs", "shims/seq.rs"],
    prelude=PRELUDE,
    use="use crate::accounts::*;\nuse crate::fees_real::StateWriteExt as _;\nmod super_ { pub mod utils { pub use crate::fee; } }\nuse super_ as super_mod;",
    items=[
        dict(file=ACC, path="struct InsufficientFunds", module="accounts"),
        dict(file=ACC, path="trait StateWriteExt/fn increase_balance", module="accounts"),
        dict(file=ACC, path="trait StateWriteExt/fn decrease_balance", module="accounts"),
        dict(file=ACC, path="impl<T: StateWrite> StateWriteExt for T", module="accounts"),
        dict(file=FC, path="struct FeeComponents"),
        dict(file=FC, path="impl<T: ?Sized> FeeComponents<T>/fn new"),
        dict(file=FC, path="impl<T: ?Sized> FeeComponents<T>/fn base"),
        dict(file=FC, path="impl<T: ?Sized> FeeComponents<T>/fn multiplier"),
        dict(file=ER, path="enum CheckedActionFeeError", keep_derives={"Debug"}),
        dict(file=ER, path="impl CheckedActionFeeError/fn internal"),
        dict(file=FS, path="trait StateWriteExt/fn add_fee_to_block_fees", module="fees_real",
             rewrites=[dict(rule="regex", id="R8.hoist_fee_event", old=r"let fee_event = Event::new\((?:.|\n)*?\n\s*\);", new="let fee_event = vx_fee_event();", count=1)]),
        dict(file=FS, path="impl<T: StateWrite> StateWriteExt for T", module="fees_real"),
        dict(file=UT, path="fn fee"),
        dict(file=CA, path="fn pay_fee", rewrites=[dict(rule="subst", id="R4.super_path", old="super::utils::fee(action, &state)", new="crate::fee(action, &state)")]),
    ],
    harness=HARNESS, harness_timeout=1500,
    harnesses=[
        dict(name="fee_is_base_plus_multiplier_times_size", obligation="checked_actions::utils::fee::ensures#total==base+multiplier*size(exact)",
             label="the fee of an action equals base + multiplier x size in exact arithmetic, with the components configured on chain at that moment"),
        dict(name="pay_fee_debits_signer_credits_block_fees", obligation="checked_action::pay_fee+fees::add_fee_to_block_fees::ensures#signer-debited-exactly+block-fees-credited-exactly+frame"),
        dict(name="canary_pay_fee_ok_reachable", expect="fail"),
    ],
    assumptions=["A-store typed accessors (get_fees, is_allowed_fee_asset, get/put_account_balance) over the symbolic store",
                 "the ephemeral object store holds the block-fee map only; the map has room for 2 assets (assertion on overflow)",
                 "R8 hoist: construction of the tx.fees ABCI event (string formatting) replaced by an opaque value; the event is still recorded",
                 "FeeHandler instantiated with one arbitrary action (arbitrary size and optional fee asset); the per-action FeeHandler impls are not under contract here"],
)
