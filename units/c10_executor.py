EX = "crates/astria-conductor/src/executor/mod.rs"
ST = "crates/astria-conductor/src/state.rs"
CF = "crates/astria-conductor/src/config.rs"

PRELUDE = r'''
// ---- stand-ins for the executor's environment: tracked rollup state, rollup client (logged), block types --------------
#[derive(Clone, Copy, Debug, PartialEq, Eq, PartialOrd, Ord)]
pub struct SequencerHeight(pub u64);
impl SequencerHeight {
    pub fn value(&self) -> u64 { self.0 }
    pub fn increment(self) -> Self { SequencerHeight::try_from(self.0.checked_add(1).expect("height overflow")).unwrap() }
}
impl TryFrom<u64> for SequencerHeight { type Error = (); fn try_from(v: u64) -> Result<Self, ()> { if v <= i64::MAX as u64 { Ok(SequencerHeight(v)) } else { Err(()) } } }
impl std::fmt::Display for SequencerHeight { fn fmt(&self, _f: &mut std::fmt::Formatter<'_>) -> std::fmt::Result { Ok(()) } }
pub mod state { pub use crate::try_map_sequencer_height_to_rollup_height; }
pub type CelestiaHeight = u64;
#[derive(Clone, Copy, Debug, PartialEq, Eq)] pub struct Hash8(pub u8);
/// the executor passes session ids and block hashes as `String`; here they are opaque 8-bit values
pub type String = Hash8;
impl From<ContractViolation> for eyre::Report { fn from(_: ContractViolation) -> Self { eyre::Report::new() } }
#[derive(Clone, Copy, Debug, PartialEq, Eq)]
pub struct ExecutedBlockMetadata { pub number: u64, pub hash: Hash8, pub parent: Hash8 }
impl ExecutedBlockMetadata { pub fn number(&self) -> u64 { self.number } pub fn hash(&self) -> Hash8 { self.hash } }
#[derive(Clone, Copy, Debug, PartialEq, Eq)]
pub struct CommitmentState { pub firm: ExecutedBlockMetadata, pub soft: ExecutedBlockMetadata, pub celestia: u64 }
impl CommitmentState { pub fn builder() -> CsBuilder { CsBuilder { f: None, s: None, c: 0 } } pub fn firm(&self) -> &ExecutedBlockMetadata { &self.firm } pub fn soft(&self) -> &ExecutedBlockMetadata { &self.soft } }
pub struct CsBuilder { f: Option<ExecutedBlockMetadata>, s: Option<ExecutedBlockMetadata>, c: u64 }
impl CsBuilder {
    pub fn firm_executed_block_metadata(mut self, b: ExecutedBlockMetadata) -> Self { self.f = Some(b); self }
    pub fn soft_executed_block_metadata(mut self, b: ExecutedBlockMetadata) -> Self { self.s = Some(b); self }
    pub fn lowest_celestia_search_height(mut self, c: u64) -> Self { self.c = c; self }
    /// astria-core rejects a commitment state whose firm number exceeds its soft number
    pub fn build(self) -> Result<CommitmentState> { let (f, s) = (self.f.unwrap(), self.s.unwrap()); if f.number > s.number { Err(eyre::Report::new()) } else { Ok(CommitmentState { firm: f, soft: s, celestia: self.c }) } }
}
/// tracked state: session parameters + commitment state; the height arithmetic is the REAL extracted mapping function
pub struct StateSender { pub cs: CommitmentState, pub seq_start: u64, pub rollup_start: u64, pub session: u8, pub look_ahead: u64 }
impl StateSender {
    pub fn rollup_id(&self) -> u8 { 0 }
    pub fn sequencer_start_block_height(&self) -> u64 { self.seq_start }
    pub fn rollup_start_block_number(&self) -> u64 { self.rollup_start }
    pub fn execution_session_id(&self) -> Hash8 { Hash8(self.session) }
    pub fn firm(&self) -> ExecutedBlockMetadata { self.cs.firm } pub fn soft(&self) -> ExecutedBlockMetadata { self.cs.soft }
    pub fn firm_hash(&self) -> Hash8 { self.cs.firm.hash } pub fn soft_hash(&self) -> Hash8 { self.cs.soft.hash }
    pub fn firm_number(&self) -> u64 { self.cs.firm.number } pub fn soft_number(&self) -> u64 { self.cs.soft.number }
    pub fn lowest_celestia_search_height(&self) -> u64 { self.cs.celestia }
    pub fn celestia_search_height_max_look_ahead(&self) -> u64 { self.look_ahead }
    pub fn next_expected_firm_sequencer_height(&self) -> SequencerHeight { map_rollup_number_to_sequencer_height(self.seq_start, self.rollup_start, self.cs.firm.number).map(SequencerHeight::increment).expect("valid tracked state") }
    pub fn next_expected_soft_sequencer_height(&self) -> SequencerHeight { map_rollup_number_to_sequencer_height(self.seq_start, self.rollup_start, self.cs.soft.number).map(SequencerHeight::increment).expect("valid tracked state") }
    pub fn try_update_commitment_state(&mut self, cs: CommitmentState, _level: config::CommitLevel) -> Result<()> { self.cs = cs; Ok(()) }
}
pub mod config { pub use crate::CommitLevel; }
pub struct Config { pub execution_commit_level: CommitLevel }
#[derive(Clone, Copy, Debug)] pub struct FilteredSequencerBlock { pub height: u64, pub hash: Hash8 }
#[derive(Clone, Copy, Debug)] pub struct ReconstructedBlock { pub celestia_height: u64, pub height: u64, pub hash: Hash8 }
#[derive(Debug, Clone, Copy)] pub struct ExecutableBlock { pub hash: Hash8, pub height: SequencerHeight, pub timestamp: u8, pub transactions: TxCount }
#[derive(Debug, Clone, Copy)] pub struct TxCount(pub u8); impl TxCount { pub fn len(&self) -> usize { self.0 as usize } }
impl ExecutableBlock {
    pub fn from_sequencer(b: FilteredSequencerBlock, _id: u8) -> Self { ExecutableBlock { hash: b.hash, height: SequencerHeight(b.height), timestamp: 0, transactions: TxCount(0) } }
    pub fn from_reconstructed(b: ReconstructedBlock) -> Self { ExecutableBlock { hash: b.hash, height: SequencerHeight(b.height), timestamp: 0, transactions: TxCount(0) } }
}
/// every ExecuteBlock RPC is logged: (parent hash it was built on, sequencer block hash)
pub static mut EXEC_LOG: [Option<(Hash8, Hash8)>; 3] = [None; 3];
pub static mut EXEC_N: usize = 0;
pub static mut FETCHED: u32 = 0;
pub struct Client;
impl Client {
    /// the rollup answers with arbitrary metadata (the executor must check it)
    pub fn execute_block_with_retry(&mut self, _s: Hash8, parent_hash: Hash8, _t: TxCount, _ts: u8, hash: Hash8) -> Result<ExecutedBlockMetadata> {
        unsafe { assert!(EXEC_N < 3); EXEC_LOG[EXEC_N] = Some((parent_hash, hash)); EXEC_N += 1; }
        if kani::any() { Ok(ExecutedBlockMetadata { number: kani::any(), hash: Hash8(kani::any()), parent: parent_hash }) } else { Err(eyre::Report::new()) }
    }
    /// assumption A-rollup: the rollup echoes the commitment state it was sent
    pub fn update_commitment_state_with_retry(&mut self, _s: Hash8, cs: CommitmentState) -> Result<CommitmentState> { if kani::any() { Ok(cs) } else { Err(eyre::Report::new()) } }
    pub fn get_executed_block_metadata_with_retry(&mut self, n: u64) -> Result<ExecutedBlockMetadata> {
        unsafe { FETCHED += 1; }
        if kani::any() { Ok(ExecutedBlockMetadata { number: n, hash: Hash8(kani::any()), parent: Hash8(kani::any()) }) } else { Err(eyre::Report::new()) }
    }
}
pub struct Metrics;
impl Metrics { pub fn absolute_set_executed_soft_block_number(&self, _n: u64) {} pub fn record_transactions_per_executed_block(&self, _n: usize) {} }
pub static METRICS: Metrics = Metrics;
/// HashMap<u64, ExecutedBlockMetadata> stand-in (2 entries)
pub struct HashMap<K, V> { pub items: [Option<(K, V)>; 2] }
impl HashMap<u64, ExecutedBlockMetadata> {
    pub fn get(&self, k: &u64) -> Option<ExecutedBlockMetadata> { let mut r = None; let mut i = 0; while i < 2 { if let Some((kk, v)) = self.items[i] { if kk == *k { r = Some(v); } } i += 1; } r }
    pub fn insert(&mut self, k: u64, v: ExecutedBlockMetadata) -> Option<ExecutedBlockMetadata> {
        let mut i = 0; while i < 2 { if let Some((kk, old)) = self.items[i] { if kk == k { self.items[i] = Some((k, v)); return Some(old); } } i += 1; }
        let mut i = 0; while i < 2 { if self.items[i].is_none() { self.items[i] = Some((k, v)); return None; } i += 1; }
        // full: evict the first entry (capacity is a modelling bound; the harness asserts it is not hit)
        unsafe { crate::MAP_OVERFLOW = true; } None
    }
    pub fn remove(&mut self, k: &u64) -> Option<ExecutedBlockMetadata> { let mut r = None; let mut i = 0; while i < 2 { if let Some((kk, v)) = self.items[i] { if kk == *k { r = Some(v); self.items[i] = None; } } i += 1; } r }
}
pub static mut MAP_OVERFLOW: bool = false;
pub struct Initialized { pub config: Config, pub client: Client, pub state: StateSender, pub blocks_pending_finalization: HashMap<u64, ExecutedBlockMetadata>, pub metrics: &'static Metrics }
'''

HARNESS = r'''
    fn any_meta() -> ExecutedBlockMetadata { ExecutedBlockMetadata { number: kani::any(), hash: Hash8(kani::any()), parent: Hash8(kani::any()) } }
    /// an executor in an arbitrary state satisfying the invariant Inv of DESIGN §6 C10:
    ///   firm.number <= soft.number, both map to valid sequencer heights, pending[k].number == k and firm.number < k <= soft.number
    fn any_executor() -> Initialized {
        let firm = any_meta(); let soft = any_meta();
        let seq_start: u64 = kani::any(); let rollup_start: u64 = kani::any();
        kani::assume(firm.number <= soft.number);
        kani::assume(seq_start >= 1 && seq_start <= 1 << 40 && rollup_start <= 1 << 40 && soft.number <= 1 << 40 && rollup_start <= firm.number + 1);
        let k: u8 = kani::any();
        let level = match k % 3 { 0 => CommitLevel::SoftOnly, 1 => CommitLevel::FirmOnly, _ => CommitLevel::SoftAndFirm };
        // in firm-only mode soft and firm always move together (Update::ToSame)
        if matches!(level, CommitLevel::FirmOnly) { kani::assume(soft == firm); }
        let mut pending = HashMap { items: [None, None] };
        if kani::any() { let n: u64 = kani::any(); kani::assume(firm.number < n && n <= soft.number); pending.items[0] = Some((n, ExecutedBlockMetadata { number: n, hash: Hash8(kani::any()), parent: Hash8(kani::any()) })); }
        unsafe { EXEC_N = 0; EXEC_LOG = [None; 3]; FETCHED = 0; MAP_OVERFLOW = false; }
        Initialized { config: Config { execution_commit_level: level }, client: Client,
                      state: StateSender { cs: CommitmentState { firm, soft, celestia: kani::any() }, seq_start, rollup_start, session: 0, look_ahead: kani::any() },
                      blocks_pending_finalization: pending, metrics: &METRICS }
    }
    fn execs() -> usize { unsafe { EXEC_N } }

    // ---- execute_soft: exactly the next soft height is executed, on top of the soft head; stale and out-of-order deliveries never are ----
    #[kani::proof]
    #[kani::unwind(5)]
    #[kani::stub(alloc::fmt::format, crate::vx_stub_format)]
    fn execute_soft_step_contract() {
        let mut ex = any_executor();
        let (firm0, soft0) = (ex.state.cs.firm, ex.state.cs.soft);
        let next_soft = ex.state.next_expected_soft_sequencer_height();
        let b = FilteredSequencerBlock { height: kani::any(), hash: Hash8(kani::any()) };
        kani::assume(b.height <= i64::MAX as u64);
        let r = ex.execute_soft(b);
        if b.height < next_soft.0 {
            // duplicate / already executed height: dropped silently, nothing reaches the rollup, nothing changes
            assert!(r.is_ok() && execs() == 0 && ex.state.cs.firm == firm0 && ex.state.cs.soft == soft0);
        } else if b.height > next_soft.0 {
            assert!(r.is_err() && execs() == 0 && ex.state.cs.firm == firm0 && ex.state.cs.soft == soft0);   // a gap is an error, never executed
        } else {
            assert!(execs() <= 1);
            if execs() == 1 { let (parent, hash) = unsafe { EXEC_LOG[0] }.unwrap(); assert!(parent == soft0.hash && hash == b.hash); }   // on top of the block executed for the previous height
            if r.is_ok() {
                assert!(execs() == 1);
                let new = ex.state.cs.soft;
                assert!(new.number == soft0.number + 1);                       // soft advances by exactly one
                assert!(ex.state.cs.firm == firm0);                            // firm untouched, hence still <= soft
                // remembered for the firm commitment under the rollup number of this sequencer height
                assert!(ex.blocks_pending_finalization.get(&new.number) == Some(new) || unsafe { MAP_OVERFLOW });
            } else {
                assert!(ex.state.cs.firm == firm0 && ex.state.cs.soft == soft0);
            }
        }
    }

    // ---- execute_firm: only the next firm height; executed iff soft has not executed it; otherwise the stored block is committed ----
    #[kani::proof]
    #[kani::unwind(5)]
    #[kani::stub(alloc::fmt::format, crate::vx_stub_format)]
    fn execute_firm_step_contract() {
        let mut ex = any_executor();
        let (firm0, soft0) = (ex.state.cs.firm, ex.state.cs.soft);
        let level = ex.config.execution_commit_level;
        let next_firm = ex.state.next_expected_firm_sequencer_height();
        let next_soft = ex.state.next_expected_soft_sequencer_height();
        let pending0 = ex.blocks_pending_finalization.get(&(firm0.number + 1));
        let b = ReconstructedBlock { celestia_height: kani::any(), height: kani::any(), hash: Hash8(kani::any()) };
        kani::assume(b.height <= i64::MAX as u64);
        let r = ex.execute_firm(Box::new(b));
        if b.height != next_firm.0 {
            assert!(r.is_err() && execs() == 0 && ex.state.cs.firm == firm0 && ex.state.cs.soft == soft0);   // out-of-order or duplicate firm data is never executed
        } else {
            let must_execute = matches!(level, CommitLevel::FirmOnly) || (matches!(level, CommitLevel::SoftAndFirm) && next_firm == next_soft);
            if must_execute {
                assert!(execs() <= 1);
                if execs() == 1 { let (parent, hash) = unsafe { EXEC_LOG[0] }.unwrap(); assert!(parent == firm0.hash && hash == b.hash); }
                if r.is_ok() { assert!(execs() == 1 && ex.state.cs.firm.number == firm0.number + 1 && ex.state.cs.soft == ex.state.cs.firm); }
            } else {
                assert!(execs() == 0);                                        // this height was already executed as a soft block: never again
                if r.is_ok() {
                    if let Some(p) = pending0 {
                        assert!(ex.state.cs.firm == p);                       // the firm commitment names the block that was executed from the same height
                        assert!(ex.blocks_pending_finalization.get(&p.number).is_none());
                    }
                    if !matches!(level, CommitLevel::SoftOnly) || true { assert!(ex.state.cs.soft == soft0); }
                }
            }
            if r.is_ok() {
                assert!(ex.state.cs.firm.number >= firm0.number && ex.state.cs.soft.number >= soft0.number);   // commitments never decrease
                assert!(ex.state.cs.firm.number <= ex.state.cs.soft.number);                                     // firm never exceeds soft
            } else {
                assert!(ex.state.cs.firm == firm0 && ex.state.cs.soft == soft0);
            }
        }
    }
    #[kani::proof]
    #[kani::unwind(5)]
    #[kani::stub(alloc::fmt::format, crate::vx_stub_format)]
    fn canary_execute_soft_ok_reachable() {
        let mut ex = any_executor();
        let next_soft = ex.state.next_expected_soft_sequencer_height();
        assert!(ex.execute_soft(FilteredSequencerBlock { height: next_soft.0, hash: Hash8(0) }).is_err());   // must FAIL
    }
'''

UNIT = dict(
    name="c10_executor", mode="K", properties=["C10"],
    shim_files=["shims/common.rs"],
    prelude=PRELUDE,
    use="use crate::eyre::{self as eyre_, Result};\nuse std::cmp::Ordering;",
    items=[
        dict(file=CF, path="enum CommitLevel", keep_derives={"Clone", "Copy", "Debug", "PartialEq", "Eq"}),
        dict(file=CF, path="impl CommitLevel/fn is_with_firm"),
        dict(file=CF, path="impl CommitLevel/fn is_with_soft"),
        dict(file=CF, path="impl Config/fn is_with_firm"),
        dict(file=ST, path="fn map_rollup_number_to_sequencer_height"),
        dict(file=ST, path="fn try_map_sequencer_height_to_rollup_height"),
        dict(file=EX, path="enum Update"),
        dict(file=EX, path="enum ExecutionKind", keep_derives={"Debug", "Clone", "Copy", "PartialEq", "Eq"}),
        dict(file=EX, path="enum ContractViolation", keep_derives={"Debug"}),
        dict(file=EX, path="fn does_block_response_fulfill_contract"),
        dict(file=EX, path="fn should_execute_firm_block"),
        dict(file=EX, path="impl Initialized/fn is_spread_too_large"),
        dict(file=EX, path="impl Initialized/fn execute_soft"),
        dict(file=EX, path="impl Initialized/fn execute_firm"),
        dict(file=EX, path="impl Initialized/fn execute_block"),
        dict(file=EX, path="impl Initialized/fn update_commitment_state"),
        dict(file=EX, path="impl Initialized/fn does_block_response_fulfill_contract"),
        dict(file=EX, path="impl Initialized/fn should_execute_firm_block"),
    ],
    harness=HARNESS,
    harnesses=[
        dict(name="execute_soft_step_contract", obligation="Initialized::execute_soft::ensures#stale-dropped+gap-rejected+exactly-one-ExecuteBlock-on-soft-head+soft+1+pending-recorded"),
        dict(name="execute_firm_step_contract", obligation="Initialized::execute_firm::ensures#only-next-firm-height+executes-iff-not-soft-executed+commits-stored-block+monotone+firm<=soft"),
        dict(name="canary_execute_soft_ok_reachable", expect="fail"),
    ],
    assumptions=["A-rollup: update_commitment_state echoes the commitment state it was sent; execute_block answers with arbitrary metadata (checked by the executor)",
                 "tracked state (StateSender over a tokio watch channel) is a plain struct; its next_expected_* heights are computed with the real extracted map_rollup_number_to_sequencer_height",
                 "CommitmentState::build rejects firm.number > soft.number (astria-core); blocks_pending_finalization is a 2-entry map (overflow flagged, not silently ignored)",
                 "invariant assumed at entry of each step (DESIGN §6 C10 Inv): firm.number <= soft.number (equal blocks in firm-only mode), heights within 2^40, pending[k].number == k with firm.number < k <= soft.number; each step re-establishes it (asserted)",
                 "NOT under contract: the tokio select loop, channel back-pressure, reader tasks; the induction over arbitrary interleavings is the argument of DESIGN §6 C10 over these two step contracts"],
)
