ACC = "crates/astria-sequencer/src/accounts/state_ext.rs"
CA = "crates/astria-sequencer/src/checked_actions/mod.rs"
W = "crates/astria-sequencer/src/checked_actions/ics20_withdrawal.rs"

PRELUDE = r'''
vx_insufficient_funds_marker!();
pub trait AssetTransfer { fn transfer_asset_and_amount(&self) -> Option<(IbcPrefixed, u128)>; }
#[derive(Clone, Debug)] pub struct Ics20Withdrawal { pub amount: u128, pub denom: Denom, pub bridge_address: Option<Address>, pub return_address: Address }
#[derive(Clone, Debug)] pub struct Ics20WithdrawalFromRollup { pub rollup_block_number: u64, pub rollup_withdrawal_event_id: EventId, pub rollup_return_address: Text }
// ---- penumbra IBC packet plumbing: opaque, arbitrary outcome of the send check, sends are counted ----------------
#[derive(Clone, Copy, Debug)] pub struct Unchecked; #[derive(Clone, Copy, Debug)] pub struct Checked;
#[derive(Clone, Copy, Debug)]
pub struct IBCPacket<T> { pub port: PortId, pub chan: ChannelId, pub th: u8, pub tt: u64, pub data: u8, pub _m: std::marker::PhantomData<T> }
pub struct PacketData(pub u8); impl PacketData { pub fn to_vec(&self) -> u8 { self.0 } }
impl<T> IBCPacket<T> {
    pub fn source_port(&self) -> &PortId { &self.port } pub fn source_channel(&self) -> &ChannelId { &self.chan }
    pub fn timeout_height(&self) -> &u8 { &self.th } pub fn timeout_timestamp(&self) -> u64 { self.tt } pub fn data(&self) -> PacketData { PacketData(self.data) }
}
impl IBCPacket<Unchecked> { pub fn new(port: PortId, chan: ChannelId, th: u8, tt: u64, data: u8) -> Self { IBCPacket { port, chan, th, tt, data, _m: std::marker::PhantomData } } }
pub static mut PACKETS_SENT: u32 = 0;
pub struct AnyhowError; pub fn anyhow_to_eyre(_e: AnyhowError) -> eyre::Report { eyre::Report::new() }
pub trait IbcSendShim: StateWrite {
    fn get_block_timestamp(&self) -> Result<u64> { match store().get(Key::BlockTimestamp) { Some(v) => Ok(v as u64), None => Err(eyre::Report::new()) } }
    fn send_packet_check(&self, p: IBCPacket<Unchecked>, _now: u64) -> core::result::Result<IBCPacket<Checked>, AnyhowError> {
        if kani::any() { Ok(IBCPacket { port: p.port, chan: p.chan, th: p.th, tt: p.tt, data: p.data, _m: std::marker::PhantomData }) } else { Err(AnyhowError) }
    }
    fn send_packet_execute(&mut self, _p: IBCPacket<Checked>) { unsafe { PACKETS_SENT += 1; } }
}
impl<T: StateWrite + ?Sized> IbcSendShim for T {}
'''

HARNESS = r'''
    /// denom_mode: 0 = trace-prefixed denom; 1 = ibc-prefixed form of an asset that is NOT of sequencer origin on this channel; 2 = ibc-prefixed form of a sequencer-origin asset
    fn setup(denom_mode: u8) -> (CheckedIcs20Withdrawal, [u8; ADDRESS_LEN], Option<(Address, EventId, u64)>, [u8; ADDRESS_LEN], IbcPrefixed, u128, ChannelId, bool) {
        reset_store();
        unsafe { PACKETS_SENT = 0; }
        let signer: [u8; ADDRESS_LEN] = kani::any();
        let trace = TracePrefixed::any();
        let amount: u128 = kani::any();
        let bridge = if kani::any() { Some(Address::any()) } else { None };
        let packet = IBCPacket::new(PortId(kani::any()), ChannelId(kani::any()), 0, 1, 0);
        let chan = packet.chan;
        // the asset is of sequencer origin on this channel (to be escrowed, not burned) iff its trace does NOT start with the source port/channel -- whichever way the user names it
        let escrowed = !(trace.seg[0] == Some((packet.port.0, packet.chan.0)));
        if denom_mode == 1 { kani::assume(!escrowed); }
        if denom_mode == 2 { kani::assume(escrowed); }
        let denom = if denom_mode == 0 { Denom::TracePrefixed(trace) } else { Denom::IbcPrefixed(trace.to_ibc_prefixed()) };
        let action = Ics20Withdrawal { amount, denom, bridge_address: bridge, return_address: Address::any() };
        // as constructed by `new`: funds leave the bridge account if one is named, otherwise the signer's own account
        let withdrawal_address = match bridge { Some(b) => b.bytes, None => signer };
        let ev = EventId(kani::any()); let bn: u64 = kani::any();
        let brw = bridge.map(|b| (b, Ics20WithdrawalFromRollup { rollup_block_number: bn, rollup_withdrawal_event_id: ev, rollup_return_address: Text(1) }));
        let x = denom.to_ibc_prefixed();
        store().declare(Key::Balance(withdrawal_address, x));
        store().declare(Key::IbcChannelBalance(chan.0, x));
        store().declare(Key::BlockTimestamp);
        store().declare(Key::BridgeRollupId(signer));
        if let Some(b) = bridge { store().declare(Key::BridgeWithdrawer(b.bytes)); store().declare(Key::WithdrawalEvent(b.bytes, ev)); }
        let checked = CheckedIcs20Withdrawal { action, withdrawal_address, bridge_address_and_rollup_withdrawal: brw, ibc_packet: packet, tx_signer: signer.into() };
        (checked, signer, bridge.map(|b| (b, ev, bn)), withdrawal_address, x, amount, chan, escrowed)
    }

    #[kani::proof]
    #[kani::unwind(10)]
    #[kani::stub(alloc::fmt::format, crate::vx_stub_format)]
    fn ics20_withdrawal_execute_contract() { withdrawal_contract(0); }
    #[kani::proof]
    #[kani::unwind(10)]
    #[kani::stub(alloc::fmt::format, crate::vx_stub_format)]
    fn ics20_withdrawal_execute_contract_foreign_asset_named_by_hash() { withdrawal_contract(1); }
    #[kani::proof]
    #[kani::unwind(10)]
    #[kani::stub(alloc::fmt::format, crate::vx_stub_format)]
    fn ics20_withdrawal_execute_contract_sequencer_asset_named_by_hash() { withdrawal_contract(2); }
    fn withdrawal_contract(denom_mode: u8) {
        let (checked, signer, bridge, from, x, amount, chan, escrowed) = setup(denom_mode);
        let r = checked.execute(State);
        let kb = Key::Balance(from, x); let ke = Key::IbcChannelBalance(chan.0, x);
        let b0 = store().peek_init(kb).unwrap_or(0); let e0 = store().peek_init(ke).unwrap_or(0);
        if r.is_ok() {
            match bridge {
                Some((b, ev, bn)) => {
                    // C02: funds of a bridge account move only for its CURRENT withdrawer (a missing withdrawer authorises nobody)
                    assert!(store().peek_init(Key::BridgeWithdrawer(b.bytes)).map(val_addr) == Some(signer));
                    // C04: the event id was unused under (bridge address, id) and is recorded there now -- the key every action type checks
                    let k = Key::WithdrawalEvent(b.bytes, ev);
                    assert!(store().peek_init(k).is_none() && store().peek(k).map(|v| v as u64) == Some(bn));
                    assert!(store().unchanged_except(&[kb, ke, k]));
                }
                None => {
                    assert!(from == signer);                                                   // own funds only
                    assert!(store().peek_init(Key::BridgeRollupId(signer)).is_none());         // and not those of a bridge account
                    assert!(store().unchanged_except(&[kb, ke]));
                }
            }
            // C01/C18: exact debit; sequencer-origin assets go to the channel escrow (exactly), foreign assets are burned (escrow untouched)
            assert!(b0 >= amount && store().peek(kb).unwrap_or(0) == b0 - amount);
            if escrowed { assert!(e0.checked_add(amount) == store().peek(ke)); } else { assert!(store().peek(ke) == store().peek_init(ke)); }
            assert!(unsafe { PACKETS_SENT } == 1);
        } else {
            assert!(unsafe { PACKETS_SENT } == 0);      // no packet leaves for a withdrawal that did not take effect
        }
    }
    #[kani::proof]
    #[kani::unwind(10)]
    #[kani::stub(alloc::fmt::format, crate::vx_stub_format)]
    fn canary_ics20_withdrawal_ok_reachable() {
        let (checked, _s, _b, _f, _x, _a, _c, _e) = setup(0);
        assert!(checked.execute(State).is_err());   // must FAIL
    }
'''

UNIT = dict(
    name="c18_withdrawal", mode="K", properties=["C18", "C02", "C04", "C01"],
    shim_files=["shims/common.rs", "shims/seq.rs"],
    prelude=PRELUDE,
    use="use crate::accounts::*;",
    items=[
        dict(file=ACC, path="struct InsufficientFunds", module="accounts"),
        dict(file=ACC, path="trait StateWriteExt/fn increase_balance", module="accounts"),
        dict(file=ACC, path="trait StateWriteExt/fn decrease_balance", module="accounts"),
        dict(file=ACC, path="impl<T: StateWrite> StateWriteExt for T", module="accounts"),
        dict(file=CA, path="struct TransactionSignerAddressBytes"),
        dict(file=CA, path="impl TransactionSignerAddressBytes/fn as_bytes"),
        dict(file=CA, path="impl From<[u8; ADDRESS_LENGTH]> for TransactionSignerAddressBytes"),
        dict(file=CA, path="impl AddressBytes for TransactionSignerAddressBytes"),
        dict(file=W, path="struct CheckedIcs20Withdrawal"),
        dict(file=W, path="impl CheckedIcs20Withdrawal/fn run_mutable_checks"),
        dict(file=W, path="impl CheckedIcs20Withdrawal/fn execute"),
        dict(file=W, path="fn is_source"),
    ],
    harness=HARNESS,
    harnesses=[
        dict(name="ics20_withdrawal_execute_contract",
             obligation="CheckedIcs20Withdrawal::execute::ensures#authority(withdrawer-or-own-funds)+event-id-fresh-then-recorded-under-bridge+exact-debit+escrow-iff-sequencer-origin+frame"),
        dict(name="ics20_withdrawal_execute_contract_foreign_asset_named_by_hash",
             obligation="CheckedIcs20Withdrawal::execute::ensures#authority+event-id+exact-debit+escrow-iff-sequencer-origin+frame[foreign asset named by its ibc/ hash]"),
        dict(name="ics20_withdrawal_execute_contract_sequencer_asset_named_by_hash",
             obligation="CheckedIcs20Withdrawal::execute::ensures#authority+event-id+exact-debit+escrow-iff-sequencer-origin+frame[sequencer-origin asset named by its ibc/ hash]",
             finding="K3", only_for=["C18", "C01"]),
        dict(name="canary_ics20_withdrawal_ok_reachable", expect="fail"),
    ],
    assumptions=["A-store typed accessors over the symbolic store; penumbra send_packet_check/send_packet_execute are stand-ins (arbitrary check outcome, sends counted)",
                 "the invariant established by CheckedIcs20Withdrawal::new is assumed: withdrawal_address == bridge address if one is named, else the signer; `new` itself (memo parsing, packet construction) is not under contract",
                 "denoms have at most 2 trace segments"],
)
