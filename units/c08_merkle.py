import os

VERIF = os.path.dirname(os.path.dirname(os.path.abspath(__file__)))

CARGO = """[package]
name = "astria-merkle"
version = "1.0.0"
edition = "2021"

[dependencies]
sha2 = { path = "%s/shims/sha2_shim" }

[features]
unchecked-constructors = []

[lints.rust]
unexpected_cfgs = { level = "allow", check-cfg = ["cfg(kani)"] }

[workspace]
""" % VERIF

HARNESS = r'''
    use std::num::NonZeroUsize;
    use crate::audit::UncheckedProof;

    pub(crate) const MAXN: usize = usize::MAX / 2;

    // ---------- specification functions, written independently of the code under proof ----------
    /// level of a node in the flat in-order layout = number of trailing one bits
    pub(crate) fn level(i: usize) -> u32 { i.trailing_ones() }
    /// ancestor of `i` at level `k` (k <= 63): keep the bits above k, clear bit k, set the k bits below
    pub(crate) fn ancestor_at(i: usize, k: u32) -> usize { ((((i >> k) >> 1) << 1) << k) | ((1usize << k) - 1) }
    /// root of the complete tree with n nodes: 2^k - 1 for the largest 2^k <= n   (1 <= n <= MAXN)
    /// (loops below run over a *constant* k so that every shift has a constant amount)
    pub(crate) fn spec_root(n: usize) -> usize {
        let mut r: usize = 0;
        let mut k: u32 = 0;
        while k < 63 {
            if (1usize << k) <= n { r = (1usize << k) - 1; }
            k += 1;
        }
        r
    }
    /// parent in the complete tree: the lowest proper ancestor that lies inside the tree
    pub(crate) fn spec_parent(i: usize, n: usize) -> usize {
        let li = level(i);
        let mut res = usize::MAX;
        let mut found = false;
        let mut k: u32 = 0;
        while k < 64 {
            if !found && k > li {
                let a = ancestor_at(i, k);
                if a < n { res = a; found = true; }
            }
            k += 1;
        }
        res
    }
    /// number of steps from tree index i to the root = number of proper ancestors of i inside the tree
    /// (requires i < n <= MAXN; the root is an ancestor-or-self of every index below n)
    pub(crate) fn spec_depth(i: usize, n: usize) -> usize {
        let li = level(i);
        let mut d: usize = 0;
        let mut k: u32 = 0;
        while k < 64 {
            if k > li && ancestor_at(i, k) < n { d += 1; }
            k += 1;
        }
        d
    }

    // ---------- bit functions: full domain, loop free => complete ----------
    #[kani::proof]
    fn last_set_bit_spec() {
        let x: usize = kani::any();
        kani::assume(x > 0);
        assert!(last_set_bit(x) == 1usize << x.trailing_zeros());
    }
    #[kani::proof]
    fn last_zero_bit_spec() {
        let x: usize = kani::any();
        kani::assume(x < usize::MAX);
        assert!(last_zero_bit(x) == 1usize << x.trailing_ones());
    }
    #[kani::proof]
    fn perfect_parent_spec() {
        let i: usize = kani::any();
        kani::assume(i <= MAXN && level(i) < 63);
        let p = perfect_parent(i);
        assert!(p == ancestor_at(i, level(i) + 1));
        assert!(level(p) == level(i) + 1);
    }
    #[kani::proof]
    fn perfect_children_roundtrip() {
        let p: usize = kani::any();
        kani::assume(p < MAXN && is_branch(p));
        let l = perfect_left_child(p);
        let r = perfect_right_child(p);
        assert!(l < p && p < r);
        assert!(level(l) + 1 == level(p) && level(r) + 1 == level(p));
        assert!(perfect_parent(l) == p && perfect_parent(r) == p);
    }
    #[kani::proof]
    #[kani::unwind(66)]
    fn complete_root_spec() {
        let n: usize = kani::any();
        kani::assume(n >= 1 && n <= MAXN);
        let r = complete_root(n);
        assert!(r == spec_root(n));
        assert!(r < n);
    }

    // ---------- complete_parent: function contract, proved once, reused by stub_verified ----------
    #[kani::proof_for_contract(complete_parent)]
    #[kani::unwind(66)]
    fn complete_parent_contract() {
        let i: usize = kani::any();
        let n: usize = kani::any();
        let _ = complete_parent(i, n);
    }
    /// vacuity canary for the precondition of complete_parent: must FAIL
    #[kani::proof]
    #[kani::unwind(66)]
    fn canary_complete_parent_requires() {
        let i: usize = kani::any();
        let n: usize = kani::any();
        kani::assume(i < n && n <= MAXN && i != spec_root(n));
        assert!(false);
    }
    #[kani::proof]
    #[kani::unwind(66)]
    fn spec_parent_properties() {
        // what the contract's postcondition means: inside the tree, a branch, strictly higher
        let i: usize = kani::any();
        let n: usize = kani::any();
        kani::assume(i < n && n <= MAXN && i != spec_root(n));
        let p = spec_parent(i, n);
        assert!(p < n && is_branch(p) && level(p) > level(i));
        assert!(ancestor_at(i, level(p)) == p);
    }
    /// pure specification lemma: together with the contract `complete_parent == spec_parent` this is the
    /// contract imported by the Verus unit c08_walk (rem := spec_depth)
    #[kani::proof]
    #[kani::unwind(66)]
    fn spec_depth_decreases_along_parent() {
        let i: usize = kani::any();
        let n: usize = kani::any();
        kani::assume(i < n && n <= MAXN);
        let d = spec_depth(i, n);
        assert!((d > 0) == (i != spec_root(n)));
        if d > 0 {
            let p = spec_parent(i, n);
            assert!(p < n);
            assert!(spec_depth(p, n) + 1 == d);
        }
    }
    #[kani::proof]
    #[kani::unwind(66)]
    #[kani::stub_verified(complete_parent)]
    fn complete_right_child_spec() {
        let p: usize = kani::any();
        let n: usize = kani::any();
        kani::assume(n <= MAXN && p < n && is_branch(p));
        kani::assume(p + 1 < n);
        let r = complete_right_child(p, n);
        assert!(p < r && r < n);
        assert!(r != spec_root(n));
        assert!(spec_parent(r, n) == p);
    }
    #[kani::proof]
    #[kani::unwind(66)]
    #[kani::stub_verified(complete_parent)]
    fn parent_and_sibling_spec() {
        let i: usize = kani::any();
        let n: usize = kani::any();
        // n is the NODE count of a tree with L >= 1 leaves, i.e. 2L-1: odd.  (For an even n the last branch node has an empty right subtree and no sibling exists;
        // the first version of this harness forgot this type invariant and, once it ran to completion, reported node 255 of a "tree" of 256 nodes.)
        kani::assume(i < n && n <= MAXN && n % 2 == 1 && i != spec_root(n));
        let (p, s) = complete_parent_and_sibling(i, n);
        assert!(p == spec_parent(i, n));
        assert!(s != i && s < n && s != spec_root(n));
        assert!(spec_parent(s, n) == p);
    }

    // ---------- audit_path_len: total on every input; the contract imported by unit c08_walk ----------
    #[kani::proof]
    #[kani::unwind(66)]
    fn audit_path_len_spec() {
        let i: usize = kani::any();
        let n: usize = kani::any();
        let r = audit_path_len(i, n);
        if n <= MAXN && i < n { assert!(r == Some(spec_depth(i, n))); } else { assert!(r.is_none()); }
    }
    /// total (no panic, terminates within 64 steps) on the full domain; value compared only for small trees
    #[kani::proof]
    #[kani::unwind(66)]
    fn audit_path_len_total_and_spec_small() {
        let i: usize = kani::any();
        let n: usize = kani::any();
        let r = audit_path_len(i, n);
        if !(n <= MAXN && i < n) { assert!(r.is_none()); } else { assert!(r.is_some()); }
        if n <= 0xFFFF && i < n { assert!(r == Some(spec_depth(i, n))); }
    }

    // ---------- decoding: total, and exactly the well-formed proofs are accepted ----------
    #[kani::proof]
    #[kani::unwind(66)]
    fn try_into_proof_total_and_wf() {
        let leaf_index: usize = kani::any();
        let tree_size: usize = kani::any();
        let len: usize = kani::any();
        kani::assume(len <= 32 * 66 + 31);
        let audit_path = vec![0u8; len];
        let r = UncheckedProof { audit_path, leaf_index, tree_size }.try_into_proof();   // panic-free: checked by Kani
        let wf = tree_size >= 1 && tree_size <= MAXN && leaf_index <= MAXN && 2 * leaf_index < tree_size && len % 32 == 0;
        match r {
            Ok(p) => {
                assert!(wf);   // accepted => inside the domain of the index arithmetic (Proof::wf of unit c08_walk)
                assert!(p.leaf_index == leaf_index && p.tree_size.get() == tree_size && p.audit_path.len() == len);
            }
            Err(_) => assert!(!wf),   // rejected => not well formed (no valid proof is refused)
        }
    }

    // ---------- Proof::verify plumbing: verify(leaf, root) == (root == reconstruct(hash_leaf(leaf))) ----------
    #[kani::proof]
    #[kani::unwind(66)]
    fn verify_is_compare_of_reconstruction() {
        let leaf_index: usize = kani::any();
        let tree_size: usize = kani::any();
        kani::assume(tree_size >= 1 && tree_size <= 3 && leaf_index < 2 && 2 * leaf_index < tree_size);
        let d = spec_depth(2 * leaf_index, tree_size);
        let mut audit_path: Vec<u8> = vec![0u8; d * 32];
        if d > 0 { let k: usize = kani::any(); kani::assume(k < d * 32); audit_path[k] = kani::any(); }
        let proof = Proof { audit_path, leaf_index, tree_size: NonZeroUsize::new(tree_size).unwrap() };
        let leaf: [u8; 3] = kani::any();
        let root: [u8; 32] = kani::any();
        let v = proof.verify(&leaf, root);
        assert!(v == (root == proof.reconstruct_root_with_leaf_hash(hash_leaf(&leaf))));
    }
'''

STRUCT_HARNESS = r'''
    // ---------- bounded: RFC 6962 shape of the root and completeness/soundness of constructed proofs ----------
    fn build(n: u64) -> Tree {
        let mut t = Tree::new();
        let mut j: u64 = 0;
        while j < n { t.push(&j.to_le_bytes()); j += 1; }
        t
    }
    fn check_tree(n: u64) {
        let t = build(n);
        let root = t.root();
        let (lo, hi, ok) = sha2::decode(&root);
        assert!(ok && lo == 0 && hi == n);                 // root == MTH(D[0:n]) shape certificate
        let mut j: u64 = 0;
        while j < n {
            let p = t.construct_proof(j as usize).unwrap();
            assert!(p.verify(&j.to_le_bytes(), root));             // completeness
            let other = (j + 1) % (n + 1);
            assert!(!p.verify(&other.to_le_bytes(), root));        // a different leaf does not verify
            // round trip through the decodable form keeps it valid
            let q = p.clone().into_unchecked().try_into_proof();
            assert!(q.is_ok());
            j += 1;
        }
        assert!(t.construct_proof(n as usize).is_none());
    }
'''


def _struct_harnesses(upto):
    out = []
    for n in range(1, upto + 1):
        out.append("    #[kani::proof]\n    #[kani::unwind(%d)]\n    fn structure_n%d() { check_tree(%d); }\n" % (90, n, n))
    return "\n".join(out)


QUICK_N = 4
THOROUGH_N = 9

harnesses = [
    dict(name="last_set_bit_spec", obligation="last_set_bit::ensures#lowest-set-bit"),
    dict(name="last_zero_bit_spec", obligation="last_zero_bit::ensures#lowest-zero-bit"),
    dict(name="perfect_parent_spec", obligation="perfect_parent::ensures#ancestor-one-level-up"),
    dict(name="perfect_children_roundtrip", obligation="perfect_left_child+perfect_right_child::ensures#parent-inverse"),
    dict(name="complete_root_spec", obligation="complete_root::ensures#largest-perfect-root"),
    dict(name="complete_parent_contract", obligation="complete_parent::contract(requires i<n<=MAX/2, i!=root; ensures == spec_parent; total)"),
    dict(name="canary_complete_parent_requires", expect="fail"),
    dict(name="spec_parent_properties", obligation="spec_parent::lemma#in-tree-branch-higher"),
    dict(name="spec_depth_decreases_along_parent", obligation="complete_parent::contract#rem-decreases(spec lemma: depth>0 <=> not root; depth(parent) == depth-1)"),
    dict(name="complete_right_child_spec", obligation="complete_right_child::ensures#child-of-p-inside-tree"),
    dict(name="parent_and_sibling_spec", obligation="complete_parent_and_sibling::ensures#sibling-shares-parent", tier="thorough"),
    dict(name="audit_path_len_total_and_spec_small", obligation="audit_path_len::total(full domain)+ensures#==depth[tree_size<=65535]",
         bounded="totality and None/Some on the full 64-bit domain; equality with the depth specification only for tree_size <= 65535 (full width: harness audit_path_len_spec, thorough tier)"),
    dict(name="audit_path_len_spec", obligation="audit_path_len::total+ensures#==depth-on-domain-else-None", tier="thorough"),
    dict(name="try_into_proof_total_and_wf", obligation="UncheckedProof::try_into_proof::total+ensures#accepts-exactly-well-formed",
         label="decoding any (path, leaf_index, tree_size) never panics; Ok <=> inside the domain of the index arithmetic"),
    dict(name="verify_is_compare_of_reconstruction", obligation="Proof::verify::ensures#root-eq-reconstruction", bounded="tree_size <= 3 (plumbing through the Audit builder; loop-free code, bound only limits the walk)", tier="thorough"),
]
for n in range(1, THOROUGH_N + 1):
    harnesses.append(dict(name="structure_n%d" % n, obligation="Tree::root+construct_proof+verify::rfc6962-shape(n=%d)" % n,
                          bounded="exactly %d leaves" % n, tier="quick" if n <= QUICK_N else "thorough"))

UNIT = dict(
    name="c08_merkle", mode="M", properties=["C08"],
    crate_dir="crates/astria-merkle",
    cargo_toml=CARGO,
    crate_attrs="",
    inject=[
        dict(file="src/lib.rs", path="fn complete_parent", attrs="""
#[cfg_attr(kani, kani::requires(i < n && n <= crate::vx_harness::MAXN && i != crate::vx_harness::spec_root(n)))]
#[cfg_attr(kani, kani::ensures(|p: &usize| *p == crate::vx_harness::spec_parent(i, n)))]
"""),
    ],
    under_contract=[
        ("src/lib.rs", "fn last_set_bit"), ("src/lib.rs", "fn last_zero_bit"), ("src/lib.rs", "fn perfect_parent"),
        ("src/lib.rs", "fn perfect_left_child"), ("src/lib.rs", "fn perfect_right_child"), ("src/lib.rs", "fn perfect_root"),
        ("src/lib.rs", "fn complete_root"), ("src/lib.rs", "fn complete_left_child"), ("src/lib.rs", "fn complete_right_child"),
        ("src/lib.rs", "fn complete_parent_and_sibling"), ("src/lib.rs", "fn is_leaf_index_in_tree"), ("src/lib.rs", "fn leaf_index_to_tree_index"),
        ("src/lib.rs", "fn is_perfect"), ("src/lib.rs", "fn audit_path_len"), ("src/lib.rs", "fn combine"), ("src/lib.rs", "fn hash_leaf"),
        ("src/lib.rs", "impl Tree/fn construct_proof"), ("src/lib.rs", "impl Tree/fn root"), ("src/lib.rs", "impl Drop for LeafBuilder<'_>/fn drop"),
        ("src/audit.rs", "impl UncheckedProof/fn try_into_proof"), ("src/audit.rs", "impl Proof/fn reconstruct_root_with_leaf_hash"),
        ("src/audit.rs", "impl Proof/fn verify"), ("src/audit.rs", "impl Audit<'_, WithLeafHash, WithRoot>/fn perform"),
    ],
    harness=HARNESS + STRUCT_HARNESS + _struct_harnesses(THOROUGH_N),
    harnesses=harnesses,
    jobs=12, harness_timeout=900,
    assumptions=[
        "H-inj: SHA-256 is replaced by the structural hash of shims/sha2_shim (a digest encodes the RFC 6962 recursion certificate); collision resistance is assumed, not proved",
        "mode M: the whole astria-merkle crate is copied unmodified; only Cargo.toml (sha2 -> shim, dev-deps/benches dropped) is replaced, contract attributes are inserted in front of complete_parent, and a #[cfg(kani)] module is appended",
        "tree_size <= usize::MAX/2 in all index contracts (larger trees are rejected by try_into_proof; obligation try_into_proof_total_and_wf)",
        "Kani: termination is established by unwinding assertions (bound 66 >= operand width + 2), not by a ranking function",
        "RFC 6962 equality of the root and completeness of construct_proof are bounded stand-ins (every leaf count up to the tier's bound), not proved for all n",
    ],
)
