A = "crates/astria-sequencer/src/app/mod.rs"

PRELUDE = r'''
use crate::eyre::{Result, WrapErr as _};
impl std::fmt::Display for eyre::Report { fn fmt(&self, _f: &mut std::fmt::Formatter<'_>) -> std::fmt::Result { Ok(()) } }
pub mod tracing { #[allow(unused_macros)] macro_rules! vx_tracing_error { ($($t:tt)*) => {{}} } pub(crate) use vx_tracing_error as error; }

// ---- fixed-capacity list standing in for Vec (see unit c06_proposal_step) -------------------------------------------------------------
pub const VCAP: usize = 4;
#[derive(Clone, Debug, PartialEq, Eq)] pub struct Vec<T> { pub items: [T; VCAP], pub n: usize }
impl<T: Default> Vec<T> {
    pub fn new() -> Self { Vec { items: [T::default(), T::default(), T::default(), T::default()], n: 0 } }
    pub fn with_capacity(_c: usize) -> Self { Self::new() }
    pub fn push(&mut self, v: T) { assert!(self.n < VCAP, "list capacity"); self.items[self.n] = v; self.n += 1; }
    pub fn extend<I: IntoIterator<Item = T>>(&mut self, it: I) { for x in it { self.push(x); } }
}
impl<T: Default> Default for Vec<T> { fn default() -> Self { Vec::new() } }
impl<T> std::ops::Deref for Vec<T> { type Target = [T]; fn deref(&self) -> &[T] { &self.items[..self.n] } }
impl<T: Default> FromIterator<T> for Vec<T> { fn from_iter<I: IntoIterator<Item = T>>(it: I) -> Self { let mut v = Vec::new(); for x in it { v.push(x); } v } }
pub struct VecIntoIter<T> { v: Vec<T>, i: usize }
impl<T: Default> Iterator for VecIntoIter<T> { type Item = T; fn next(&mut self) -> Option<T> { if self.i < self.v.n { let r = std::mem::take(&mut self.v.items[self.i]); self.i += 1; Some(r) } else { None } } }
impl<T: Default> IntoIterator for Vec<T> { type Item = T; type IntoIter = VecIntoIter<T>; fn into_iter(self) -> VecIntoIter<T> { VecIntoIter { v: self, i: 0 } } }
#[allow(unused_macros)] macro_rules! vec { () => { crate::Vec::new() } }
#[derive(Clone, Copy, Debug, PartialEq, Eq, Default)] pub struct Arc<T>(pub T);
impl<T> Arc<T> { pub fn new(t: T) -> Self { Arc(t) } }
impl<T> std::ops::Deref for Arc<T> { type Target = T; fn deref(&self) -> &T { &self.0 } }

// ---- the application state as the ORDERED LOG of state-changing steps applied to the last committed state --------------------------------
// Two executions produce the same state (and app hash) if they apply the same steps in the same order; nothing is assumed to commute.
#[derive(Clone, Copy, Debug, PartialEq, Eq, Default)] pub enum Step { #[default] Nil, Prices(u8), PreExecute(u8), Execute(u8), PostExecute(u8) }
pub const LCAP: usize = 8;
#[derive(Clone, Copy, Debug, PartialEq, Eq, Default)] pub struct Log { pub steps: [Step; LCAP], pub n: usize }
impl Log { pub fn push(&mut self, s: Step) { assert!(self.n < LCAP, "step log capacity"); self.steps[self.n] = s; self.n += 1; } }
#[derive(Clone, Debug, PartialEq, Eq, Default)] pub struct Ephemeral { pub executed_txs: Option<Vec<ExecutedTransaction>>, pub post: Option<PostTransactionExecutionResult> }
#[derive(Clone, Copy, Debug)] pub struct Snapshot;
pub struct Storage;
impl Storage { pub fn latest_snapshot(&self) -> Snapshot { Snapshot } }
pub trait VxState { fn vx_log(&self) -> Log; }
impl VxState for Snapshot { fn vx_log(&self) -> Log { Log::default() } }
#[derive(Clone, Debug)] pub struct StateDelta<T> { pub log: Log, pub eph: Ephemeral, pub events: Vec<Event>, pub _p: std::marker::PhantomData<T> }
impl<T> VxState for StateDelta<T> { fn vx_log(&self) -> Log { self.log } }
impl<T: VxState> VxState for Arc<T> { fn vx_log(&self) -> Log { self.0.vx_log() } }
impl<T: VxState> StateDelta<T> { pub fn new(parent: T) -> Self { StateDelta { log: parent.vx_log(), eph: Ephemeral::default(), events: Vec::new(), _p: std::marker::PhantomData } } }
pub trait ObjGet<T> { fn vx_get(&self, key: u8) -> Option<T>; }
impl<P> ObjGet<Vec<ExecutedTransaction>> for StateDelta<P> { fn vx_get(&self, _k: u8) -> Option<Vec<ExecutedTransaction>> { self.eph.executed_txs.clone() } }
impl<P> ObjGet<PostTransactionExecutionResult> for StateDelta<P> { fn vx_get(&self, _k: u8) -> Option<PostTransactionExecutionResult> { self.eph.post.clone() } }
impl<P> StateDelta<P> { pub fn object_get<T>(&self, key: u8) -> Option<T> where Self: ObjGet<T> { self.vx_get(key) } }
pub const EXECUTED_TXS_KEY: u8 = 0;
pub const POST_TRANSACTION_EXECUTION_RESULT_KEY: u8 = 1;
pub type InterBlockState = Arc<StateDelta<Snapshot>>;

// ---- block / ABCI stand-ins ------------------------------------------------------------------------------------------------------------
#[derive(Clone, Copy, Debug, PartialEq, Eq, Default)] pub enum Hash { Sha256(u8), #[default] None }
#[derive(Clone, Copy, Debug, PartialEq, Eq, Default)] pub struct Time(pub u8);
#[derive(Clone, Copy, Debug, PartialEq, Eq, Default)] pub struct Timestamp(pub u8);
impl From<Time> for Timestamp { fn from(t: Time) -> Self { Timestamp(t.0) } }
#[derive(Clone, Copy, Debug, PartialEq, Eq, Default)] pub struct Misbehavior(pub u8);
#[derive(Clone, Copy, Debug, PartialEq, Eq, Default)] pub struct CommitInfo(pub u8);
#[derive(Clone, Copy, Debug, PartialEq, Eq, Default)] pub struct Event(pub u8);
#[derive(Clone, Copy, Debug, PartialEq, Eq, Default)] pub struct TransactionId(pub u8);
#[derive(Clone, Copy, Debug, PartialEq, Eq, Default)] pub struct ChangeHash(pub u8);
#[derive(Clone, Copy, Debug, PartialEq, Eq, Default)] pub struct AppHash(pub Log);
#[derive(Clone, Copy, Debug, PartialEq, Eq, Default)] pub struct Len(pub usize);
impl Len { pub fn len(&self) -> usize { self.0 } }
pub mod account { #[derive(Clone, Copy, Debug, PartialEq, Eq, Default)] pub struct Id(pub u8); impl Id { pub fn as_bytes(&self) -> u8 { self.0 } } }
pub mod block { #[derive(Clone, Copy, Debug, PartialEq, Eq, Default)] pub struct Hash(pub u8); impl Hash { pub fn new(h: u8) -> Self { Hash(h) } } }
pub mod tendermint {
    pub mod block { #[derive(Clone, Copy, Debug, PartialEq, Eq, Default)] pub struct Height(pub u64); impl Height { pub fn value(&self) -> u64 { self.0 } } }
    pub mod abci { pub mod types { pub use crate::Misbehavior; } }
    pub mod validator { #[derive(Clone, Copy, Debug, PartialEq, Eq, Default)] pub struct Update(pub u8); }
    pub mod consensus { #[derive(Clone, Copy, Debug, PartialEq, Eq, Default)] pub struct Params(pub u8); }
    pub use crate::Time;
}
/// the `txs` field of a proposed / decided block: what the data-item parser will find in it
#[derive(Clone, Copy, Debug, PartialEq, Eq, Default)] pub struct Txs { pub parses: bool, pub eci: Option<u8>, pub n_user: usize, pub user: [u8; 2], pub roots: (u8, u8), pub upgrade_hashes: u8 }
pub mod abci {
    pub mod request {
        use crate::*;
        #[derive(Clone, Copy, Debug, PartialEq, Eq, Default)] pub struct FinalizeBlock { pub hash: Hash, pub height: tendermint::block::Height, pub txs: Txs, pub time: Time, pub misbehavior: Vec<Misbehavior>, pub next_validators_hash: Hash, pub proposer_address: account::Id }
        #[derive(Clone, Copy, Debug, PartialEq, Eq, Default)] pub struct ProcessProposal { pub hash: Hash, pub height: tendermint::block::Height, pub txs: Txs, pub time: Time, pub misbehavior: Vec<Misbehavior>, pub next_validators_hash: Hash, pub proposer_address: account::Id, pub proposed_last_commit: Option<CommitInfo> }
    }
    pub mod response {
        use crate::*;
        #[derive(Clone, Debug, PartialEq, Eq, Default)] pub struct FinalizeBlock { pub events: Vec<Event>, pub tx_results: Vec<ExecTxResult>, pub validator_updates: Vec<tendermint::validator::Update>, pub consensus_param_updates: Option<tendermint::consensus::Params>, pub app_hash: AppHash }
    }
}
impl Copy for Vec<Misbehavior> {}
#[derive(Clone, Copy, Debug, PartialEq, Eq, Default)] pub struct ExtendedCommitInfoWithCurrencyPairMapping(pub u8);
#[derive(Clone, Copy, Debug, PartialEq, Eq, Default)] pub struct EciWithProof(pub u8);
impl EciWithProof { pub fn extended_commit_info(&self) -> &ExtendedCommitInfoWithCurrencyPairMapping { unsafe { &*(self as *const EciWithProof as *const ExtendedCommitInfoWithCurrencyPairMapping) } } pub fn encoded_extended_commit_info(&self) -> Len { Len(1) } }
#[derive(Clone, Copy, Debug, PartialEq, Eq, Default)] pub struct UserTxs { pub n: usize, pub ids: [u8; 2] }
impl UserTxs { pub fn len(&self) -> usize { self.n } }
#[derive(Clone, Copy, Debug, PartialEq, Eq, Default)] pub struct ExpandedBlockData { pub extended_commit_info_with_proof: Option<EciWithProof>, pub user_submitted_transactions: UserTxs, pub rollup_transactions_root: u8, pub rollup_ids_root: u8, pub upgrade_change_hashes: u8, pub injected: usize }
impl ExpandedBlockData {
    /// parsing is a function of the block's bytes only
    pub fn new_from_typed_data(txs: &Txs, with_eci: bool) -> Result<Self> {
        if !txs.parses || (with_eci != txs.eci.is_some() && with_eci) { return Err(eyre::Report::new()); }
        Ok(ExpandedBlockData { extended_commit_info_with_proof: if with_eci { txs.eci.map(EciWithProof) } else { None }, user_submitted_transactions: UserTxs { n: txs.n_user, ids: txs.user },
                               rollup_transactions_root: txs.roots.0, rollup_ids_root: txs.roots.1, upgrade_change_hashes: txs.upgrade_hashes, injected: 2 })
    }
    pub fn new_from_untyped_data(txs: &Txs) -> Result<Self> { Self::new_from_typed_data(txs, false) }
    pub fn injected_transaction_count(&self) -> usize { self.injected }
}
#[derive(Clone, Copy, Debug, PartialEq, Eq, Default)] pub struct CheckedTransaction { pub id: u8 }
impl CheckedTransaction { pub fn id(&self) -> &TransactionId { unsafe { &*(&self.id as *const u8 as *const TransactionId) } } }
#[derive(Clone, Copy, Debug, PartialEq, Eq)] pub enum CheckedActionExecutionError { NonFatalExecution { index: u8 }, Fatal }
#[derive(Clone, Copy, Debug, PartialEq, Eq)] pub enum CheckedTransactionExecutionError { InvalidNonce { expected: u32, tx_nonce: u32 }, CheckedAction(CheckedActionExecutionError) }
impl std::fmt::Display for CheckedTransactionExecutionError { fn fmt(&self, _f: &mut std::fmt::Formatter<'_>) -> std::fmt::Result { Ok(()) } }
#[derive(Clone, Copy, Debug, PartialEq, Eq, Default)] pub enum Code { #[default] Ok, Err(u32) }
impl Code { pub fn is_err(&self) -> bool { matches!(self, Code::Err(_)) } pub fn is_ok(&self) -> bool { !self.is_err() } }
pub struct AbciErrorCode(pub u32);
impl AbciErrorCode { pub const TRANSACTION_FAILED_EXECUTION: AbciErrorCode = AbciErrorCode(10); pub fn value(&self) -> u32 { self.0 } }
#[derive(Clone, Debug, PartialEq, Eq, Default)] pub struct ExecTxResult { pub code: Code, pub log: String, pub info: String, pub events: Vec<Event> }
#[derive(Clone, Debug, PartialEq, Eq)] pub enum RemovalReason { FailedExecution(String) }
#[derive(Clone, Debug, Default)] pub struct Mempool { pub n_removed: std::cell::Cell<u8> }
impl Mempool { pub fn remove_tx_invalid(&self, _tx: Arc<CheckedTransaction>, r: RemovalReason) { std::mem::forget(r); self.n_removed.set(self.n_removed.get() + 1); } }
pub struct Metrics;
impl Metrics { pub fn record_extended_commit_info_bytes(&self, _n: usize) {} pub fn increment_process_proposal_skipped_proposal(&self) {} pub fn record_proposal_transactions(&self, _n: usize) {} pub fn record_proposal_deposits(&self, _n: usize) {} }
pub static METRICS: Metrics = Metrics;
pub struct EventBus;
impl EventBus { pub fn send_finalized_block(&self, _b: Arc<abci::request::FinalizeBlock>) {} pub fn send_process_proposal_block(&self, _b: Arc<SequencerBlock>) {} }
#[derive(Clone, Copy, Debug, PartialEq, Eq, Default)] pub struct SequencerBlock(pub u8);
#[derive(Clone, Copy, Debug, PartialEq, Eq, Default)] pub struct Deposits(pub u8);
impl Deposits { pub fn len(&self) -> usize { 0 } }
pub struct Commitments { pub rollup_datas_root: u8, pub rollup_ids_root: u8 }
/// commitment over the block's transactions and the deposits their execution produced: a function of the transactions (honest blocks carry exactly this value)
pub fn generate_rollup_datas_commitment<const B: bool>(txs: &Vec<Arc<CheckedTransaction>>, _d: Deposits) -> Commitments { let mut h: u8 = 7; let mut i = 0; while i < txs.len() { h = h.wrapping_mul(31).wrapping_add(txs[i].id); i += 1; } Commitments { rollup_datas_root: h, rollup_ids_root: h ^ 0x55 } }
pub fn vx_honest_roots(n: usize, ids: [u8; 2]) -> (u8, u8) { let mut h: u8 = 7; let mut i = 0; while i < n { h = h.wrapping_mul(31).wrapping_add(ids[i]); i += 1; } (h, h ^ 0x55) }
pub fn construct_checked_txs(user: &UserTxs, _state: &InterBlockState) -> Result<Vec<Arc<CheckedTransaction>>> { let mut v = Vec::new(); let mut i = 0; while i < user.n { v.push(Arc::new(CheckedTransaction { id: user.ids[i] })); i += 1; } Ok(v) }
pub fn ensure_upgrade_change_hashes_as_expected(_d: &ExpandedBlockData, _h: &[ChangeHash]) -> Result<()> { Ok(()) }
pub struct BlockSizeConstraints; impl BlockSizeConstraints { pub fn new_unlimited_cometbft() -> Self { BlockSizeConstraints } }
pub struct ProposalHandler;
impl ProposalHandler { pub fn validate_proposal(_s: &InterBlockState, _h: u64, _c: &CommitInfo, _e: &ExtendedCommitInfoWithCurrencyPairMapping) -> Result<()> { if kani::any() { Ok(()) } else { Err(eyre::Report::new()) } } }
pub mod vote_extension {
    use crate::*;
    /// applies the block's oracle prices: a state-changing step (contract of the real function: writes the price state of every pair in the extended commit, fails if a pair's state is missing)
    pub fn apply_prices_from_vote_extensions<P>(state: &mut StateDelta<P>, eci: &ExtendedCommitInfoWithCurrencyPairMapping, _t: Timestamp, _h: u64) -> Result<()> { state.log.push(Step::Prices(eci.0)); state.events.push(Event(200)); Ok(()) }
}

// ---- execution-state machine: the transition relation proved on the real text in unit c05_execution_state, over 8-bit fingerprints ------------
#[derive(Clone, Copy, Debug, PartialEq, Eq)] pub enum ExecutionState { Unset, Prepared(u8), PreparedValid(u8), CheckedPreparedMismatch(u8), ExecutedBlock { cached_block_hash: u8, cached_proposal: Option<u8> }, CheckedExecutedBlockMismatch { cached_block_hash: u8, cached_proposal: Option<u8> } }
#[derive(Clone, Copy, Debug, PartialEq, Eq)] pub struct ExecutionStateMachine(pub ExecutionState);
pub fn vx_fingerprint(p: &abci::request::ProcessProposal) -> u8 { p.txs.user[0] ^ p.txs.user[1].rotate_left(3) ^ (p.height.0 as u8) ^ p.time.0 ^ p.proposer_address.0 }
impl ExecutionStateMachine {
    pub fn new() -> Self { ExecutionStateMachine(ExecutionState::Unset) }
    pub fn data(&self) -> &ExecutionState { &self.0 }
    pub fn check_if_prepared_proposal(&mut self, p: abci::request::ProcessProposal) -> bool {
        match self.0 { ExecutionState::Prepared(c) => { if c == vx_fingerprint(&p) { self.0 = ExecutionState::PreparedValid(c); true } else { self.0 = ExecutionState::CheckedPreparedMismatch(c); false } } _ => false } }
    pub fn check_if_executed_block(&mut self, h: u8) -> bool {
        match self.0 { ExecutionState::ExecutedBlock { cached_block_hash, cached_proposal } => { if cached_block_hash == h { true } else { self.0 = ExecutionState::CheckedExecutedBlockMismatch { cached_block_hash, cached_proposal }; false } }
                       ExecutionState::Prepared(c) | ExecutionState::PreparedValid(c) => { self.0 = ExecutionState::CheckedPreparedMismatch(c); false } _ => false } }
    pub fn set_executed_block(&mut self, h: u8) -> Result<()> {
        match self.0 { ExecutionState::Unset => { self.0 = ExecutionState::ExecutedBlock { cached_block_hash: h, cached_proposal: None }; Ok(()) }
                       ExecutionState::PreparedValid(c) => { self.0 = ExecutionState::ExecutedBlock { cached_block_hash: h, cached_proposal: Some(c) }; Ok(()) } _ => Err(eyre::Report::new()) } }
}
pub struct UpgradesHandler;

// ---- App: the fields the two entry points use; the steps below them are logged stand-ins -----------------------------------------------------------
pub struct App { pub state: InterBlockState, pub mempool: Mempool, pub execution_state: ExecutionStateMachine, pub metrics: &'static Metrics, pub event_bus: EventBus, pub data_item_enum: bool, pub vote_ext: bool, pub tx_outcome: [u8; 2] }
impl App {
    fn state_mut(&mut self) -> &mut StateDelta<Snapshot> { &mut self.state.0 }
    pub fn update_state_for_new_round(&mut self, storage: &Storage) { self.state = Arc::new(StateDelta::new(storage.latest_snapshot())); self.execution_state = ExecutionStateMachine::new(); }
    pub fn uses_data_item_enum(&self, _h: tendermint::block::Height) -> bool { self.data_item_enum }
    pub fn vote_extensions_enabled(&mut self, _h: tendermint::block::Height) -> Result<bool> { Ok(self.vote_ext) }
    pub fn apply(&mut self, state_tx: StateDelta<InterBlockState>) -> Vec<Event> { let s = self.state_mut(); s.log = state_tx.log; state_tx.events }   // ephemeral objects are written to the inter-block state directly by the stand-ins
    pub fn pre_execute_transactions(&mut self, b: BlockData) -> Result<Vec<ChangeHash>> { let h = b.height.0 as u8; self.state_mut().log.push(Step::PreExecute(h)); Ok(Vec::new()) }
    /// contract (unit c03_tx): runs in its own delta, applied iff Ok.  The outcome is a function of the transaction and everything applied before it.
    pub fn execute_transaction(&mut self, tx: Arc<CheckedTransaction>) -> core::result::Result<Vec<Event>, CheckedTransactionExecutionError> {
        let k = if tx.id == 0 { self.tx_outcome[0] } else { self.tx_outcome[1] };
        match k { 0 => { self.state_mut().log.push(Step::Execute(tx.id)); Ok(Vec::new()) }
                      1 => Err(CheckedTransactionExecutionError::CheckedAction(CheckedActionExecutionError::NonFatalExecution { index: 0 })),
                      _ => Err(CheckedTransactionExecutionError::CheckedAction(CheckedActionExecutionError::Fatal)) } }
    pub fn process_proposal_tx_execution(&mut self, txs: &[Arc<CheckedTransaction>], _c: BlockSizeConstraints) -> Result<Vec<ExecutedTransaction>> {
        let mut out = Vec::new(); let mut i = 0;
        while i < txs.len() { match self.execute_transaction(txs[i]) { Ok(events) => out.push(ExecutedTransaction { tx: txs[i], exec_result: ExecTxResult { events, ..Default::default() } }),
            Err(CheckedTransactionExecutionError::CheckedAction(CheckedActionExecutionError::NonFatalExecution { .. })) => out.push(ExecutedTransaction { tx: txs[i], exec_result: ExecTxResult { code: Code::Err(10), ..Default::default() } }),
            Err(_) => return Err(eyre::Report::new()) } i += 1; }
        Ok(out) }
    pub fn post_execute_transactions(&mut self, block_hash: Hash, height: tendermint::block::Height, _t: Time, _p: account::Id, d: ExpandedBlockData, executed_txs: Vec<ExecutedTransaction>) -> Result<SequencerBlock> {
        let Hash::Sha256(h) = block_hash else { return Err(eyre::Report::new()); };
        self.execution_state.set_executed_block(h)?;
        let mut tx_results = Vec::new(); let mut i = 0; while i < executed_txs.len() { tx_results.push((*executed_txs[i].tx.id(), executed_txs[i].exec_result.clone())); i += 1; }
        let s = self.state_mut(); s.log.push(Step::PostExecute(height.0 as u8));
        s.eph.post = Some(PostTransactionExecutionResult { events: { let mut e = Vec::new(); e.push(Event(100)); e }, tx_results, validator_updates: Vec::new(), consensus_param_updates: None, injected_tx_count: d.injected_transaction_count() });
        Ok(SequencerBlock(0)) }
    /// the app hash is the root hash of the state built so far: a function of the ordered step log
    pub fn prepare_commit(&mut self, _s: Storage, _r: Vec<(TransactionId, ExecTxResult)>) -> Result<AppHash> { Ok(AppHash(self.state.log)) }
}
impl StateDelta<Snapshot> { pub fn get_cached_block_deposits(&self) -> Deposits { Deposits(0) } }
'''

HARNESS = r'''
    fn any_block(n_user: usize) -> (abci::request::ProcessProposal, abci::request::FinalizeBlock) {
        let ids = [0u8, 1u8];
        let eci: Option<u8> = if kani::any() { Some(kani::any()) } else { None };
        let hash = Hash::Sha256(kani::any());
        let height = tendermint::block::Height(kani::any()); let time = Time(kani::any()); let proposer = account::Id(kani::any());
        let txs = Txs { parses: true, eci, n_user, user: ids, roots: vx_honest_roots(n_user, ids), upgrade_hashes: 0 };     // an honest block: commitments match its transactions
        (abci::request::ProcessProposal { hash, height, txs, time, misbehavior: Vec::new(), next_validators_hash: Hash::None, proposer_address: proposer, proposed_last_commit: Some(CommitInfo(0)) },
         abci::request::FinalizeBlock { hash, height, txs, time, misbehavior: Vec::new(), next_validators_hash: Hash::None, proposer_address: proposer })
    }
    fn new_app(outcome: [u8; 2], vote_ext: bool, die: bool) -> App {
        App { state: Arc::new(StateDelta::new(Snapshot)), mempool: Mempool::default(), execution_state: ExecutionStateMachine::new(), metrics: &METRICS, event_bus: EventBus, data_item_enum: die, vote_ext, tx_outcome: outcome }
    }
    fn same_response(a: &abci::response::FinalizeBlock, b: &abci::response::FinalizeBlock) -> bool {
        let mut ok = a.app_hash == b.app_hash && a.events.len() == b.events.len() && a.tx_results.len() == b.tx_results.len();
        let mut i = 0; while i < a.events.len() && i < b.events.len() { ok = ok && a.events[i] == b.events[i]; i += 1; }
        let mut i = 0; while i < a.tx_results.len() && i < b.tx_results.len() { ok = ok && a.tx_results[i].code == b.tx_results[i].code; i += 1; }
        ok
    }
    /// validator path: ProcessProposal then FinalizeBlock; syncing path: FinalizeBlock only; same committed state, same decided block
    fn run_both(with_prices: bool, n_user: usize, outcome: [u8; 2]) -> Option<(Result<abci::response::FinalizeBlock>, Result<abci::response::FinalizeBlock>)> {
        let (pp, fb) = any_block(n_user);
        kani::assume(pp.txs.eci.is_some() == with_prices);
        // outcome[i]: 0 = executes, 1 = fails non-fatally (included with an error code); a decided block contains no fatally failing transaction (C06)
        let vote_ext = with_prices; let die: bool = if with_prices { true } else { kani::any() };
        let mut validator = new_app(outcome, vote_ext, die);
        if validator.process_proposal(pp, Storage).is_err() { return None; }      // (vote-extension validation may reject; then the block is not decided through this node)
        let rv = validator.finalize_block(fb, Storage);
        let mut syncing = new_app(outcome, vote_ext, die);
        let rs = syncing.finalize_block(fb, Storage);
        Some((rv, rs))
    }

    fn check_paths(with_prices: bool, n_user: usize, outcome: [u8; 2]) {
        if let Some((rv, rs)) = run_both(with_prices, n_user, outcome) {
            match (&rv, &rs) { (Ok(a), Ok(b)) => assert!(same_response(a, b)), (Err(_), Err(_)) => {}, _ => assert!(false) }
            std::mem::forget(rv); std::mem::forget(rs);
        }
    }
    // ---- blocks without oracle prices: the validator path and the syncing path apply the same steps in the same order -------------------------
    #[kani::proof] #[kani::unwind(9)] #[kani::stub(alloc::fmt::format, crate::vx_stub_format)] fn path_independent_without_prices_0_txs() { check_paths(false, 0, [0, 0]); }
    #[kani::proof] #[kani::unwind(9)] #[kani::stub(alloc::fmt::format, crate::vx_stub_format)] fn path_independent_without_prices_1_tx_ok() { check_paths(false, 1, [0, 0]); }
    #[kani::proof] #[kani::unwind(9)] #[kani::stub(alloc::fmt::format, crate::vx_stub_format)] fn path_independent_without_prices_1_tx_failing() { check_paths(false, 1, [1, 0]); }
    #[kani::proof] #[kani::unwind(9)] #[kani::stub(alloc::fmt::format, crate::vx_stub_format)] fn path_independent_without_prices_2_txs_ok() { check_paths(false, 2, [0, 0]); }
    #[kani::proof] #[kani::unwind(9)] #[kani::stub(alloc::fmt::format, crate::vx_stub_format)] fn path_independent_without_prices_2_txs_one_failing() { check_paths(false, 2, [0, 1]); }
    // ---- a proposal rejected in an earlier round leaves nothing behind: the decided block of the next round is processed from the committed state ----
    #[kani::proof] #[kani::unwind(9)] #[kani::stub(alloc::fmt::format, crate::vx_stub_format)]
    fn rejected_earlier_round_does_not_leak_into_the_decided_block() {
        let (pp, fb) = any_block(1);
        kani::assume(pp.txs.eci.is_none());
        let die: bool = kani::any();
        // round 0: the same transactions under commitments that do not match them -- rejected, but only after the transactions were executed
        let mut bad = pp; bad.hash = Hash::Sha256(kani::any()); bad.txs.roots = (kani::any(), kani::any());
        kani::assume(bad.txs.roots.0 != pp.txs.roots.0 || bad.txs.roots.1 != pp.txs.roots.1);
        let mut validator = new_app([0, 0], false, die);
        let r0 = validator.process_proposal(bad, Storage);
        assert!(r0.is_err());
        // round 1: the honest proposal is accepted and finalized exactly as on a node that never saw round 0
        let r1 = validator.process_proposal(pp, Storage);
        assert!(r1.is_ok());
        let rv = validator.finalize_block(fb, Storage);
        let mut syncing = new_app([0, 0], false, die);
        let rs = syncing.finalize_block(fb, Storage);
        match (&rv, &rs) { (Ok(a), Ok(b)) => assert!(same_response(a, b)), _ => assert!(false) }
        std::mem::forget(rv); std::mem::forget(rs); std::mem::forget(r0); std::mem::forget(r1);
    }
    // ---- blocks carrying oracle prices: same obligation (K2) ---------------------------------------------------------------------------------------
    #[kani::proof] #[kani::unwind(9)] #[kani::stub(alloc::fmt::format, crate::vx_stub_format)] fn path_independent_with_prices_1_tx_ok() { check_paths(true, 1, [0, 0]); }
    #[kani::proof] #[kani::unwind(9)] #[kani::stub(alloc::fmt::format, crate::vx_stub_format)]
    fn canary_validator_path_reaches_finalize() {
        if let Some((rv, _rs)) = run_both(false, 1, [0, 0]) { assert!(rv.is_err()); std::mem::forget(rv); std::mem::forget(_rs); }     // must FAIL
    }
'''

UNIT = dict(
    name="c05_paths", mode="K", properties=["C05"],
    shim_files=["shims/common.rs"],
    prelude=PRELUDE,
    items=[
        dict(file=A, path="struct ExecutedTransaction", keep_derives={"Clone"}, add_derive="Debug, PartialEq, Eq, Default"),
        dict(file=A, path="struct BlockData", keep_derives={"Debug", "Clone"}),
        dict(file=A, path="struct PostTransactionExecutionResult", keep_derives={"Debug", "Clone"}, add_derive="PartialEq, Eq, Default"),
        dict(file=A, path="impl App/fn process_proposal"),
        dict(file=A, path="impl App/fn finalize_block",
             rewrites=[dict(rule="subst", id="eyre-report-new(error)", old="eyre::Report::new(error)", new="eyre::Report::msg(error)", count=1)]),
    ],
    harness=HARNESS,
    harnesses=[
        dict(name="path_independent_without_prices_0_txs", obligation="App::process_proposal+finalize_block::ensures#validator-path==syncing-path[no extended commit info, 0 txs]", bounded="blocks of exactly 0 user transactions"),
        dict(name="path_independent_without_prices_1_tx_ok", obligation="App::process_proposal+finalize_block::ensures#validator-path==syncing-path[no extended commit info, 1 tx executing]", bounded="blocks of exactly 1 user transaction"),
        dict(name="path_independent_without_prices_1_tx_failing", obligation="App::process_proposal+finalize_block::ensures#validator-path==syncing-path[no extended commit info, 1 tx failing non-fatally]", bounded="blocks of exactly 1 user transaction", tier="thorough"),
        dict(name="path_independent_without_prices_2_txs_ok", obligation="App::process_proposal+finalize_block::ensures#validator-path==syncing-path[no extended commit info, 2 txs executing]", bounded="blocks of exactly 2 user transactions", tier="thorough"),
        dict(name="path_independent_without_prices_2_txs_one_failing", obligation="App::process_proposal+finalize_block::ensures#validator-path==syncing-path[no extended commit info, 2 txs, second failing non-fatally]", bounded="blocks of exactly 2 user transactions", tier="thorough"),
        dict(name="rejected_earlier_round_does_not_leak_into_the_decided_block", obligation="App::process_proposal::ensures#a-rejected-proposal-leaves-no-state-behind(next round == syncing path)", bounded="blocks of exactly 1 user transaction"),
        dict(name="path_independent_with_prices_1_tx_ok", obligation="App::process_proposal+finalize_block::ensures#validator-path==syncing-path[block with oracle prices, 1 tx executing]", bounded="blocks of exactly 1 user transaction", finding="K2", only_for=["C05"]),
        dict(name="canary_validator_path_reaches_finalize", expect="fail"),
    ],
    harness_timeout=3000,
    assumptions=["the application state is modelled as the ordered log of state-changing steps (price application, pre-execution, each applied transaction, post-execution) since the last commit; two paths agree iff they apply the same steps in the same order — nothing is assumed to commute; the app hash is a function of that log",
                 "stand-ins (trusted): ExecutionStateMachine implements the transition relation proved in unit c05_execution_state over 8-bit fingerprints; pre_execute_transactions, execute_transaction, process_proposal_tx_execution, post_execute_transactions, prepare_commit, construct_checked_txs, data-item parsing, commitments and vote-extension validation are logged stand-ins; StateDelta/Arc/Snapshot carry the step log and the ephemeral objects",
                 "decided blocks contain no fatally failing transaction (C06) and carry honest commitments",
                 "NOT under contract: prepare_proposal (the proposer's own cached path), commit, multi-round histories beyond one ProcessProposal, everything below the skeleton"],
)
