//! Verification stand-in for the `sha2` crate (trusted shim, DESIGN §4 `H-inj`).
//!
//! `Sha256` is replaced by a *structural* hash: the digest of a byte string is an encoding of the
//! RFC 6962 recursion certificate of that string, so that the shape of a Merkle tree can be read
//! off its root:
//!   * input `0x00 ‖ j` (8 byte little endian leaf number)  ->  (lo = j, hi = j+1, ok)
//!   * input `0x01 ‖ L ‖ R` (two 32 byte digests)            ->  (L.lo, R.hi, ok) where
//!       ok <=> L.ok ∧ R.ok ∧ L.hi == R.lo ∧ (L.hi - L.lo) is the largest power of two
//!       strictly smaller than (R.hi - L.lo)
//!   * anything else (other prefix, other length)           ->  not ok
//! The same API surface as the parts of `sha2` that astria-merkle uses.
#![allow(clippy::all)]

pub const CAP: usize = 80;

#[derive(Clone)]
pub struct Sha256 {
    buf: [u8; CAP],
    len: usize,
    overflow: bool,
}

pub struct Output(pub [u8; 32]);

impl From<Output> for [u8; 32] {
    fn from(o: Output) -> [u8; 32] {
        o.0
    }
}

pub fn encode(lo: u64, hi: u64, ok: bool) -> [u8; 32] {
    let mut out = [0u8; 32];
    let l = lo.to_le_bytes();
    let h = hi.to_le_bytes();
    let mut k = 0;
    while k < 8 {
        out[k] = l[k];
        out[8 + k] = h[k];
        k += 1;
    }
    out[16] = if ok { 1 } else { 0 };
    out
}

pub fn decode(d: &[u8]) -> (u64, u64, bool) {
    let mut l = [0u8; 8];
    let mut h = [0u8; 8];
    let mut k = 0;
    while k < 8 {
        l[k] = d[k];
        h[k] = d[8 + k];
        k += 1;
    }
    (u64::from_le_bytes(l), u64::from_le_bytes(h), d[16] == 1)
}

/// largest power of two strictly smaller than n (n >= 2)
pub fn split_point(n: u64) -> u64 {
    let mut k: u64 = 1;
    while k.checked_mul(2).map_or(false, |d| d < n) {
        k *= 2;
    }
    k
}

pub trait Digest: Sized {
    fn new() -> Self;
    fn update(&mut self, data: impl AsRef<[u8]>);
    fn finalize(self) -> Output;
    fn digest(data: impl AsRef<[u8]>) -> Output {
        let mut h = Self::new();
        h.update(data);
        h.finalize()
    }
}

impl Digest for Sha256 {
    fn new() -> Self {
        Sha256 {
            buf: [0; CAP],
            len: 0,
            overflow: false,
        }
    }

    fn update(&mut self, data: impl AsRef<[u8]>) {
        let d = data.as_ref();
        let mut k = 0;
        while k < d.len() {
            if self.len < CAP {
                self.buf[self.len] = d[k];
                self.len += 1;
            } else {
                self.overflow = true;
            }
            k += 1;
        }
    }

    fn finalize(self) -> Output {
        if self.overflow || self.len == 0 {
            return Output(encode(0, 0, false));
        }
        if self.buf[0] == 0x00 && self.len == 9 {
            let mut j = [0u8; 8];
            let mut k = 0;
            while k < 8 {
                j[k] = self.buf[1 + k];
                k += 1;
            }
            let j = u64::from_le_bytes(j);
            return Output(encode(j, j.wrapping_add(1), j != u64::MAX));
        }
        if self.buf[0] == 0x01 && self.len == 65 {
            let (llo, lhi, lok) = decode(&self.buf[1..33]);
            let (rlo, rhi, rok) = decode(&self.buf[33..65]);
            let ok = lok && rok && lhi == rlo && llo < lhi && rlo < rhi && (lhi - llo) == split_point(rhi - llo);
            return Output(encode(llo, rhi, ok));
        }
        Output(encode(0, 0, false))
    }
}
