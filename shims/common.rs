// ---- shims/common.rs : eyre / tracing stand-ins shared by all mode-K units (trusted, hand written) ----
// Error values carry no message: only the Ok/Err shape (and one flag used by the ICS-20 code) matters
// to the contracts. Macros evaluate their condition exactly like the originals and drop format args.
#[allow(unused_macros)]
macro_rules! trace { ($($t:tt)*) => {{}} }
#[allow(unused_macros)]
macro_rules! debug { ($($t:tt)*) => {{}} }
#[allow(unused_macros)]
macro_rules! info { ($($t:tt)*) => {{}} }
#[allow(unused_macros)]
macro_rules! warn { ($($t:tt)*) => {{}} }
#[allow(unused_macros)]
macro_rules! error { ($($t:tt)*) => {{}} }
#[allow(unused_macros)]
macro_rules! ensure {
    ($cond:expr $(,)?) => { if !($cond) { return ::core::result::Result::Err($crate::eyre::Report::new().into()); } };
    ($cond:expr, $($rest:tt)*) => { if !($cond) { return ::core::result::Result::Err($crate::eyre::Report::new().into()); } };
}
#[allow(unused_macros)]
macro_rules! bail {
    ($($rest:tt)*) => { return ::core::result::Result::Err($crate::eyre::Report::new().into()) };
}
#[allow(unused_macros)]
macro_rules! eyre {
    ($($rest:tt)*) => { $crate::eyre::Report::new() };
}

pub mod eyre {
    #[derive(Debug, Clone, Copy, PartialEq, Eq)]
    pub struct Report {
        /// stands for `downcast_ref::<InsufficientFunds>().is_some()`
        pub insufficient_funds: bool,
    }
    impl Report {
        pub fn new() -> Self { Report { insufficient_funds: false } }
        pub fn msg<M>(_m: M) -> Self { Report::new() }
        pub fn wrap_err<D>(self, _msg: D) -> Self { self }
    }
    pub type Result<T, E = Report> = core::result::Result<T, E>;
    pub type Error = Report;

    pub trait WrapErr<T>: Sized {
        fn wrap_err<D>(self, msg: D) -> Result<T>;
        fn wrap_err_with<D, F: FnOnce() -> D>(self, f: F) -> Result<T>;
        fn context<D>(self, msg: D) -> Result<T>;
        fn with_context<D, F: FnOnce() -> D>(self, f: F) -> Result<T>;
    }
    impl<T, E: Into<Report>> WrapErr<T> for core::result::Result<T, E> {
        fn wrap_err<D>(self, _msg: D) -> Result<T> { self.map_err(Into::into) }
        fn wrap_err_with<D, F: FnOnce() -> D>(self, _f: F) -> Result<T> { self.map_err(Into::into) }
        fn context<D>(self, _msg: D) -> Result<T> { self.map_err(Into::into) }
        fn with_context<D, F: FnOnce() -> D>(self, _f: F) -> Result<T> { self.map_err(Into::into) }
    }
    /// error payloads handed to ok_or_eyre: plain messages carry nothing; typed errors may set a flag
    pub trait IntoReport { fn into_report(self) -> Report where Self: Sized { Report::new() } }
    impl IntoReport for &str {}
    impl IntoReport for String {}
    pub trait OptionExt<T>: Sized {
        fn ok_or_eyre<D: IntoReport>(self, msg: D) -> Result<T>;
    }
    impl<T> OptionExt<T> for Option<T> {
        fn ok_or_eyre<D: IntoReport>(self, msg: D) -> Result<T> { match self { Some(v) => Ok(v), None => Err(msg.into_report()) } }
    }
}
#[allow(unused_imports)]
use eyre::{OptionExt as _, WrapErr as _};

/// replacement for alloc::fmt::format in harnesses (`#[kani::stub(alloc::fmt::format, crate::vx_stub_format)]`):
/// formatted messages are never inspected by the code under proof
pub fn vx_stub_format(_args: std::fmt::Arguments<'_>) -> std::string::String { std::string::String::new() }
