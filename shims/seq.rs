// ---- shims/seq.rs : sequencer state + domain stand-ins for mode-K units (trusted, hand written) ----
//
// Symbolic store: a fixed-capacity association list keyed by a structured `Key`. The first read of a
// key chooses its initial value with `kani::any()` (so every harness quantifies over ALL initial
// states that agree on the touched keys); every read, write and delete is logged, which makes the
// write frame ("nothing else changed") an assertion instead of an assumption. Capacity overflow is
// an assertion as well.
//
// What is abstracted (assumption A-store, DESIGN §2.3): key construction is injective (keys are
// structured values here), borsh round-trips, cnidarium get/put/delete semantics. Addresses are
// ADDRESS_LEN = 2 bytes and asset ids 1 byte: the code under proof only copies and compares them.
pub use std::borrow::Cow;
pub use std::fmt::Display;
pub use crate::eyre::Result;   // R4: the extracted files import astria_eyre::eyre::Result

pub const ADDRESS_LEN: usize = 2;
pub const ADDRESS_LENGTH: usize = 2;
pub const ROLLUP_ID_LEN: usize = 1;

// ------------------------------------------------------------------------------------------------ domain
pub trait AddressBytes {
    fn address_bytes(&self) -> &[u8; ADDRESS_LEN];
    fn display_address(&self) -> u8 { 0 }
}
impl AddressBytes for [u8; ADDRESS_LEN] {
    fn address_bytes(&self) -> &[u8; ADDRESS_LEN] { self }
}
impl<T: AddressBytes> AddressBytes for &T {
    fn address_bytes(&self) -> &[u8; ADDRESS_LEN] { (*self).address_bytes() }
}
#[derive(Clone, Copy, Debug, PartialEq, Eq)]
pub struct Address { pub bytes: [u8; ADDRESS_LEN], pub prefix: u8 }
impl Address {
    pub fn bytes(self) -> [u8; ADDRESS_LEN] { self.bytes }
    pub fn as_bytes(&self) -> &[u8; ADDRESS_LEN] { &self.bytes }
    pub fn prefix(&self) -> u8 { self.prefix }
    pub fn any() -> Self { Address { bytes: kani::any(), prefix: kani::any() } }
}
impl AddressBytes for Address {
    fn address_bytes(&self) -> &[u8; ADDRESS_LEN] { &self.bytes }
}
impl std::fmt::Display for Address { fn fmt(&self, _f: &mut std::fmt::Formatter<'_>) -> std::fmt::Result { Ok(()) } }

pub mod asset {
    use std::borrow::Cow;
    #[derive(Clone, Copy, Debug, PartialEq, Eq, PartialOrd, Ord, Hash)]
    pub struct IbcPrefixed(pub u8);
    impl IbcPrefixed { pub fn to_ibc_prefixed(&self) -> IbcPrefixed { *self } }
    /// trace-prefixed denom: up to two (port, channel) segments followed by a base denom id
    #[derive(Clone, Copy, Debug, PartialEq, Eq)]
    pub struct TracePrefixed { pub seg: [Option<(u8, u8)>; 2], pub base: u8 }
    impl TracePrefixed {
        /// sha256 of the display form: an uninterpreted injective function of the structure (H-inj)
        pub fn to_ibc_prefixed(&self) -> IbcPrefixed {
            let s0 = match self.seg[0] { None => 0u8, Some((p, c)) => 1u8.wrapping_add(p.wrapping_mul(3)).wrapping_add(c.wrapping_mul(5)) };
            let s1 = match self.seg[1] { None => 0u8, Some((p, c)) => 1u8.wrapping_add(p.wrapping_mul(7)).wrapping_add(c.wrapping_mul(11)) };
            IbcPrefixed(self.base.wrapping_mul(13).wrapping_add(s0).wrapping_add(s1.wrapping_mul(17)) | 0x80)
        }
        pub fn any() -> Self {
            let t = TracePrefixed { seg: [kani::any(), kani::any()], base: kani::any() };
            kani::assume(!(t.seg[0].is_none() && t.seg[1].is_some()));   // segments are a prefix list
            t
        }
        pub fn has_leading_port(&self, port: &super::PortId) -> bool { match self.seg[0] { Some((p, _)) => p == port.0, None => false } }
        pub fn has_leading_channel(&self, channel: &super::ChannelId) -> bool { match self.seg[0] { Some((_, c)) => c == channel.0, None => false } }
        pub fn pop_leading_port_and_channel(&mut self) -> Option<(u8, u8)> { let r = self.seg[0]; self.seg[0] = self.seg[1]; self.seg[1] = None; r }
        /// `format!("{port}/{channel}/{asset}").parse()`: the denom with one more leading segment (None if the model has no room)
        pub fn vx_with_prefix(&self, port: &super::PortId, channel: &super::ChannelId) -> Option<TracePrefixed> {
            if self.seg[1].is_some() { None } else { Some(TracePrefixed { seg: [Some((port.0, channel.0)), self.seg[0]], base: self.base }) }
        }
    }
    #[derive(Clone, Copy, Debug, PartialEq, Eq)]
    pub enum Denom { TracePrefixed(TracePrefixed), IbcPrefixed(IbcPrefixed) }
    impl Denom {
        pub fn to_ibc_prefixed(&self) -> IbcPrefixed {
            match self { Denom::TracePrefixed(t) => t.to_ibc_prefixed(), Denom::IbcPrefixed(i) => *i }
        }
        pub fn any() -> Self { if kani::any() { Denom::IbcPrefixed(IbcPrefixed(kani::any())) } else { Denom::TracePrefixed(TracePrefixed::any()) } }
    }
    impl From<TracePrefixed> for Denom { fn from(t: TracePrefixed) -> Self { Denom::TracePrefixed(t) } }
    impl From<IbcPrefixed> for Denom { fn from(t: IbcPrefixed) -> Self { Denom::IbcPrefixed(t) } }
    impl std::fmt::Display for Denom { fn fmt(&self, _f: &mut std::fmt::Formatter<'_>) -> std::fmt::Result { Ok(()) } }
    impl std::fmt::Display for IbcPrefixed { fn fmt(&self, _f: &mut std::fmt::Formatter<'_>) -> std::fmt::Result { Ok(()) } }
    impl std::fmt::Display for TracePrefixed { fn fmt(&self, _f: &mut std::fmt::Formatter<'_>) -> std::fmt::Result { Ok(()) } }
    impl<'a> From<&'a IbcPrefixed> for Cow<'a, IbcPrefixed> { fn from(v: &'a IbcPrefixed) -> Self { Cow::Borrowed(v) } }
    impl<'a> From<&'a Denom> for Cow<'a, IbcPrefixed> { fn from(v: &'a Denom) -> Self { Cow::Owned(v.to_ibc_prefixed()) } }
    impl<'a> From<&'a TracePrefixed> for Cow<'a, IbcPrefixed> { fn from(v: &'a TracePrefixed) -> Self { Cow::Owned(v.to_ibc_prefixed()) } }
}
pub use asset::{Denom, IbcPrefixed, TracePrefixed};

#[derive(Clone, Copy, Debug, PartialEq, Eq)]
pub struct PortId(pub u8);
#[derive(Clone, Copy, Debug, PartialEq, Eq)]
pub struct ChannelId(pub u8);
impl std::fmt::Display for PortId { fn fmt(&self, _f: &mut std::fmt::Formatter<'_>) -> std::fmt::Result { Ok(()) } }
impl std::fmt::Display for ChannelId { fn fmt(&self, _f: &mut std::fmt::Formatter<'_>) -> std::fmt::Result { Ok(()) } }
#[derive(Clone, Copy, Debug, PartialEq, Eq)]
pub struct RollupId(pub u8);
#[derive(Clone, Copy, Debug, PartialEq, Eq)]
pub struct TransactionId(pub u8);
#[derive(Clone, Copy, Debug, PartialEq, Eq)]
pub struct EventId(pub u8);   // rollup withdrawal event id (a String in the real code; only compared and used as key)
impl EventId { pub fn is_empty(&self) -> bool { self.0 == 0 } pub fn len(&self) -> usize { if self.0 == 0 { 0 } else { 1 + (self.0 as usize) * 2 } } }
impl std::fmt::Display for EventId { fn fmt(&self, _f: &mut std::fmt::Formatter<'_>) -> std::fmt::Result { Ok(()) } }
#[derive(Clone, Copy, Debug, PartialEq, Eq)]
pub struct Text(pub u8);      // stands for String fields that are only moved, cloned and length-checked
impl Text { pub fn len(&self) -> usize { self.0 as usize } pub fn is_empty(&self) -> bool { self.0 == 0 } }

#[derive(Clone, Debug, PartialEq, Eq)]
pub struct Deposit {
    pub bridge_address: Address,
    pub rollup_id: RollupId,
    pub amount: u128,
    pub asset: asset::Denom,
    pub destination_chain_address: Text,
    pub source_transaction_id: TransactionId,
    pub source_action_index: u64,
}

// ------------------------------------------------------------------------------------------------ store
#[derive(Clone, Copy, Debug, PartialEq, Eq)]
pub enum Key {
    Balance([u8; ADDRESS_LEN], IbcPrefixed),
    Nonce([u8; ADDRESS_LEN]),
    BridgeRollupId([u8; ADDRESS_LEN]),
    BridgeAsset([u8; ADDRESS_LEN]),
    BridgeSudo([u8; ADDRESS_LEN]),
    BridgeWithdrawer([u8; ADDRESS_LEN]),
    BridgeDisabled([u8; ADDRESS_LEN]),
    WithdrawalEvent([u8; ADDRESS_LEN], EventId),
    IbcChannelBalance(u8, IbcPrefixed),
    IbcAsset(IbcPrefixed),
    Sudo,
    IbcSudo,
    IbcRelayer([u8; ADDRESS_LEN]),
    FeeAssetAllowed(IbcPrefixed),
    Fees(u8),
    BasePrefix,
    IbcCompatPrefix,
    ValidatorCount,
    Validator([u8; ADDRESS_LEN]),
    Upgrade(u8),
    BlockTimestamp,
    LastTxId([u8; ADDRESS_LEN]),
    BlockValidatorUpdate([u8; ADDRESS_LEN]),
}
/// every stored value is carried as a u128 payload; the typed accessors below decode it per key family
pub type Val = u128;
#[derive(Clone, Copy, Debug)]
pub struct Slot { pub code: u32, pub init: Option<Val>, pub cur: Option<Val> }
impl Key {
    /// injective integer code of a key (family tag, two address bytes, one more byte): comparisons on it are cheap
    pub fn code(&self) -> u32 {
        let (t, a, b): (u32, [u8; ADDRESS_LEN], u8) = match *self {
            Key::Balance(a, x) => (1, a, x.0),
            Key::Nonce(a) => (2, a, 0),
            Key::BridgeRollupId(a) => (3, a, 0),
            Key::BridgeAsset(a) => (4, a, 0),
            Key::BridgeSudo(a) => (5, a, 0),
            Key::BridgeWithdrawer(a) => (6, a, 0),
            Key::BridgeDisabled(a) => (7, a, 0),
            Key::WithdrawalEvent(a, e) => (8, a, e.0),
            Key::IbcChannelBalance(c, x) => (9, [c, 0], x.0),
            Key::IbcAsset(x) => (10, [0, 0], x.0),
            Key::Sudo => (11, [0, 0], 0),
            Key::IbcSudo => (12, [0, 0], 0),
            Key::IbcRelayer(a) => (13, a, 0),
            Key::FeeAssetAllowed(x) => (14, [0, 0], x.0),
            Key::Fees(k) => (15, [0, 0], k),
            Key::BasePrefix => (16, [0, 0], 0),
            Key::IbcCompatPrefix => (17, [0, 0], 0),
            Key::ValidatorCount => (18, [0, 0], 0),
            Key::Validator(a) => (19, a, 0),
            Key::Upgrade(k) => (20, [0, 0], k),
            Key::BlockTimestamp => (21, [0, 0], 0),
            Key::LastTxId(a) => (22, a, 0),
            Key::BlockValidatorUpdate(a) => (23, a, 0),
        };
        (t << 24) | ((a[0] as u32) << 16) | ((a[1] as u32) << 8) | (b as u32)
    }
}

pub const CAP: usize = 8;
pub const DCAP: usize = 3;
/// Symbolic store.  A harness *declares* the keys its contract talks about (`declare`), each with an
/// arbitrary initial value (present or absent).  Accesses by the code under proof are resolved against
/// the declared keys (first match, so aliasing keys share one slot).  A read of an undeclared key
/// returns an arbitrary value (over-approximation: sound for proofs), a write to an undeclared key sets
/// `wrote_undeclared`, which every frame assertion requires to be false.
pub struct Store {
    pub slots: [Option<Slot>; CAP],
    pub n: usize,
    pub wrote_undeclared: bool,
    pub read_undeclared: bool,
    pub deposits: [Option<Deposit>; DCAP],     // ephemeral: cached block deposits, in order
    pub n_deposits: usize,
    pub events: u32,                            // number of ABCI events recorded
    pub deposit_events: u32,                    // number of deposit ABCI events recorded
    pub allow_io_err: bool,                     // harness switch: storage accesses may fail
    pub storage_error: bool,                    // set when a storage access failed
}
pub static mut STORE: Store = Store {
    slots: [None; CAP], n: 0, wrote_undeclared: false, read_undeclared: false,
    deposits: [None, None, None], n_deposits: 0, events: 0, deposit_events: 0, allow_io_err: false, storage_error: false,
};

impl Store {
    fn find(&self, key: Key) -> Option<usize> {
        let c = key.code();
        let mut i = 0;
        while i < CAP {
            if i >= self.n { break; }
            if let Some(s) = &self.slots[i] { if s.code == c { return Some(i); } }
            i += 1;
        }
        None
    }
    /// harness side: make `key` a tracked key with an arbitrary initial value
    pub fn declare(&mut self, key: Key) {
        // always appends (n stays concrete); if the key aliases an earlier one, lookups use the earlier slot
        assert!(self.n < CAP);
        let init: Option<Val> = if kani::any() { Some(kani::any()) } else { None };
        self.slots[self.n] = Some(Slot { code: key.code(), init, cur: init });
        self.n += 1;
    }
    /// harness side: tracked key with a chosen initial value
    pub fn declare_with(&mut self, key: Key, init: Option<Val>) {
        assert!(self.n < CAP);
        self.slots[self.n] = Some(Slot { code: key.code(), init, cur: init });
        self.n += 1;
    }
    pub fn get(&mut self, key: Key) -> Option<Val> {
        match self.find(key) {
            Some(i) => self.slots[i].unwrap().cur,
            None => { self.read_undeclared = true; if kani::any() { Some(kani::any()) } else { None } }
        }
    }
    pub fn put(&mut self, key: Key, v: Val) {
        match self.find(key) {
            Some(i) => { let s = self.slots[i].as_mut().unwrap(); s.cur = Some(v); }
            None => { self.wrote_undeclared = true; }
        }
    }
    pub fn delete(&mut self, key: Key) {
        match self.find(key) {
            Some(i) => { let s = self.slots[i].as_mut().unwrap(); s.cur = None; }
            None => { self.wrote_undeclared = true; }
        }
    }
    /// spec-side accessors
    pub fn peek_init(&self, key: Key) -> Option<Val> { match self.find(key) { Some(i) => self.slots[i].unwrap().init, None => panic!("peek of undeclared key") } }
    pub fn peek(&self, key: Key) -> Option<Val> { match self.find(key) { Some(i) => self.slots[i].unwrap().cur, None => panic!("peek of undeclared key") } }
    /// true iff no key other than the listed ones changed (declared keys compared, undeclared keys never written)
    pub fn unchanged_except(&self, allowed: &[Key]) -> bool {
        let mut ok = !self.wrote_undeclared;
        let mut i = 0;
        while i < CAP {
            if i >= self.n { break; }
            if let Some(s) = &self.slots[i] {
                let mut is_allowed = false;
                let mut j = 0;
                while j < allowed.len() { if allowed[j].code() == s.code { is_allowed = true; } j += 1; }
                if !is_allowed && s.cur != s.init { ok = false; }
            }
            i += 1;
        }
        ok
    }
    pub fn nothing_written(&self) -> bool { self.unchanged_except(&[]) }
}
pub fn store() -> &'static mut Store { unsafe { &mut *std::ptr::addr_of_mut!(STORE) } }
pub fn bal_init(a: &[u8; ADDRESS_LEN], x: IbcPrefixed) -> u128 { store().peek_init(Key::Balance(*a, x)).unwrap_or(0) }
pub fn bal_now(a: &[u8; ADDRESS_LEN], x: IbcPrefixed) -> u128 { store().peek(Key::Balance(*a, x)).unwrap_or(0) }
pub fn addr_val(a: &[u8; ADDRESS_LEN]) -> Val { (a[0] as u128) | ((a[1] as u128) << 8) }
pub fn val_addr(v: Val) -> [u8; ADDRESS_LEN] { [(v & 0xff) as u8, ((v >> 8) & 0xff) as u8] }

/// the state handle handed to the code under proof; all handles alias the one symbolic store
#[derive(Debug)]
pub struct State;
pub trait StateRead { fn vx_store(&self) -> &'static mut Store { store() } }
pub trait StateWrite: StateRead {
    fn record<E>(&mut self, _event: E) { let s = store(); s.events += 1; }
}
impl StateRead for State {}
impl StateWrite for State {}
impl<T: StateRead + ?Sized> StateRead for &T {}
impl<T: StateRead + ?Sized> StateRead for &mut T {}
impl<T: StateWrite + ?Sized> StateWrite for &mut T {}

fn io_err<T>() -> Option<eyre::Result<T>> {
    // arbitrary storage failure on any access (covers every `?` on a storage error)
    if store().allow_io_err && kani::any() { store().storage_error = true; Some(Err(eyre::Report::new())) } else { None }
}

// ------------------------------------------------------------------------------------------------ typed accessors
// One-liners over the store with the names and result types of the real `state_ext` traits.
pub mod accounts_shim {
    use super::*;
    pub trait StateReadExt: StateRead {
        fn get_account_balance<'a, TAddress, TAsset>(&self, address: &TAddress, asset: &'a TAsset) -> eyre::Result<u128>
        where TAddress: AddressBytes, TAsset: Sync + std::fmt::Display, &'a TAsset: Into<Cow<'a, asset::IbcPrefixed>> {
            if let Some(e) = io_err() { return e; }
            let x: Cow<'a, IbcPrefixed> = asset.into();
            match store().get(Key::Balance(*address.address_bytes(), *x)) { Some(v) => Ok(v), None => Ok(0) }
        }
        fn get_account_nonce<T: AddressBytes>(&self, address: &T) -> eyre::Result<u32> {
            if let Some(e) = io_err() { return e; }
            match store().get(Key::Nonce(*address.address_bytes())) { Some(v) => Ok(v as u32), None => Ok(0) }
        }
    }
    impl<T: StateRead + ?Sized> StateReadExt for T {}
    pub trait StateWriteShim: StateWrite {
        fn put_account_balance<'a, TAddress, TAsset>(&mut self, address: &TAddress, asset: &'a TAsset, balance: u128) -> eyre::Result<()>
        where TAddress: AddressBytes, TAsset: std::fmt::Display, &'a TAsset: Into<Cow<'a, asset::IbcPrefixed>> {
            let x: Cow<'a, IbcPrefixed> = asset.into();
            store().put(Key::Balance(*address.address_bytes(), *x), balance);
            Ok(())
        }
        fn put_account_nonce<T: AddressBytes>(&mut self, address: &T, nonce: u32) -> eyre::Result<()> {
            store().put(Key::Nonce(*address.address_bytes()), nonce as Val);
            Ok(())
        }
    }
    impl<T: StateWrite + ?Sized> StateWriteShim for T {}
}
pub use accounts_shim::{StateReadExt as _, StateWriteShim as _};

pub mod address_shim {
    use super::*;
    pub trait StateReadExt: StateRead {
        fn ensure_base_prefix(&self, address: &Address) -> eyre::Result<()> {
            if let Some(e) = io_err() { return e; }
            match store().get(Key::BasePrefix) { Some(p) => if p as u8 == address.prefix { Ok(()) } else { Err(eyre::Report::new()) }, _ => Err(eyre::Report::new()) }
        }
        fn get_base_prefix(&self) -> eyre::Result<u8> {
            if let Some(e) = io_err() { return e; }
            match store().get(Key::BasePrefix) { Some(p) => Ok(p as u8), _ => Err(eyre::Report::new()) }
        }
        fn get_ibc_compat_prefix(&self) -> eyre::Result<u8> {
            if let Some(e) = io_err() { return e; }
            match store().get(Key::IbcCompatPrefix) { Some(p) => Ok(p as u8), _ => Err(eyre::Report::new()) }
        }
    }
    impl<T: StateRead + ?Sized> StateReadExt for T {}
}
pub use address_shim::StateReadExt as _;

pub mod bridge_shim {
    use super::*;
    pub trait StateReadExt: StateRead {
        fn is_a_bridge_account<T: AddressBytes>(&self, address: &T) -> eyre::Result<bool> {
            Ok(self.get_bridge_account_rollup_id(address)?.is_some())
        }
        fn get_bridge_account_rollup_id<T: AddressBytes>(&self, address: &T) -> eyre::Result<Option<RollupId>> {
            if let Some(e) = io_err() { return e; }
            match store().get(Key::BridgeRollupId(*address.address_bytes())) { Some(v) => Ok(Some(RollupId(v as u8))), None => Ok(None) }
        }
        fn get_bridge_account_ibc_asset<T: AddressBytes>(&self, address: &T) -> eyre::Result<IbcPrefixed> {
            if let Some(e) = io_err() { return e; }
            match store().get(Key::BridgeAsset(*address.address_bytes())) { Some(v) => Ok(IbcPrefixed(v as u8)), _ => Err(eyre::Report::new()) }
        }
        fn get_bridge_account_sudo_address<T: AddressBytes>(&self, address: &T) -> eyre::Result<Option<[u8; ADDRESS_LEN]>> {
            if let Some(e) = io_err() { return e; }
            match store().get(Key::BridgeSudo(*address.address_bytes())) { Some(v) => Ok(Some(val_addr(v))), None => Ok(None) }
        }
        fn get_bridge_account_withdrawer_address<T: AddressBytes>(&self, address: &T) -> eyre::Result<Option<[u8; ADDRESS_LEN]>> {
            if let Some(e) = io_err() { return e; }
            match store().get(Key::BridgeWithdrawer(*address.address_bytes())) { Some(v) => Ok(Some(val_addr(v))), None => Ok(None) }
        }
        fn is_bridge_account_disabled<T: AddressBytes>(&self, address: &T) -> eyre::Result<bool> {
            if let Some(e) = io_err() { return e; }
            match store().get(Key::BridgeDisabled(*address.address_bytes())) { Some(v) => Ok(v & 1 == 1), None => Ok(false) }
        }
        fn get_withdrawal_event_rollup_block_number<T: AddressBytes>(&self, address: &T, withdrawal_event_id: &EventId) -> eyre::Result<Option<u64>> {
            if let Some(e) = io_err() { return e; }
            match store().get(Key::WithdrawalEvent(*address.address_bytes(), *withdrawal_event_id)) { Some(v) => Ok(Some(v as u64)), None => Ok(None) }
        }
        fn get_cached_block_deposits_len(&self) -> usize { store().n_deposits }
    }
    impl<T: StateRead + ?Sized> StateReadExt for T {}
    pub trait StateWriteExt: StateWrite {
        fn put_bridge_account_rollup_id<T: AddressBytes>(&mut self, address: &T, rollup_id: RollupId) -> eyre::Result<()> { store().put(Key::BridgeRollupId(*address.address_bytes()), rollup_id.0 as Val); Ok(()) }
        fn put_bridge_account_ibc_asset<'a, TAddress, TAsset>(&mut self, address: &TAddress, asset: &'a TAsset) -> eyre::Result<()>
        where TAddress: AddressBytes, &'a TAsset: Into<Cow<'a, asset::IbcPrefixed>>, TAsset: 'a {
            let x: Cow<'a, IbcPrefixed> = asset.into();
            store().put(Key::BridgeAsset(*address.address_bytes()), x.0 as Val); Ok(())
        }
        fn put_bridge_account_sudo_address<TB: AddressBytes, TS: AddressBytes>(&mut self, bridge_address: &TB, sudo_address: TS) -> eyre::Result<()> {
            store().put(Key::BridgeSudo(*bridge_address.address_bytes()), addr_val(sudo_address.address_bytes())); Ok(())
        }
        fn put_bridge_account_withdrawer_address<TB: AddressBytes, TW: AddressBytes>(&mut self, bridge_address: &TB, withdrawer_address: TW) -> eyre::Result<()> {
            store().put(Key::BridgeWithdrawer(*bridge_address.address_bytes()), addr_val(withdrawer_address.address_bytes())); Ok(())
        }
        fn put_bridge_account_disabled_status<T: AddressBytes>(&mut self, address: &T, disabled: bool) -> eyre::Result<()> {
            store().put(Key::BridgeDisabled(*address.address_bytes()), disabled as Val); Ok(())
        }
        fn put_withdrawal_event_rollup_block_number<T: AddressBytes>(&mut self, address: &T, withdrawal_event_id: &EventId, block_num: u64) -> eyre::Result<()> {
            store().put(Key::WithdrawalEvent(*address.address_bytes(), *withdrawal_event_id), block_num as Val); Ok(())
        }
        fn put_last_transaction_id_for_bridge_account<T: AddressBytes>(&mut self, address: &T, tx_id: TransactionId) -> eyre::Result<()> {
            store().put(Key::LastTxId(*address.address_bytes()), tx_id.0 as Val); Ok(())
        }
        fn cache_deposit_event(&mut self, deposit: Deposit) {
            let s = store();
            assert!(s.n_deposits < DCAP, "deposit log capacity exceeded");
            s.deposits[s.n_deposits] = Some(deposit);
            s.n_deposits += 1;
        }
    }
    impl<T: StateWrite + ?Sized> StateWriteExt for T {}
}
pub use bridge_shim::{StateReadExt as _, StateWriteExt as _};

/// `create_deposit_event(&Deposit)` (ABCI event construction) is outside the units: events are counted only
pub struct DepositEvent;
pub fn create_deposit_event(_d: &Deposit) -> DepositEvent { store().deposit_events += 1; DepositEvent }

pub mod authority_shim {
    use super::*;
    pub trait StateReadExt: StateRead {
        fn get_sudo_address(&self) -> eyre::Result<[u8; ADDRESS_LEN]> {
            if let Some(e) = io_err() { return e; }
            match store().get(Key::Sudo) { Some(v) => Ok(val_addr(v)), _ => Err(eyre::Report::new()) }
        }
    }
    impl<T: StateRead + ?Sized> StateReadExt for T {}
    pub trait StateWriteExt: StateWrite {
        fn put_sudo_address<T: AddressBytes>(&mut self, address: T) -> eyre::Result<()> { store().put(Key::Sudo, addr_val(address.address_bytes())); Ok(()) }
    }
    impl<T: StateWrite + ?Sized> StateWriteExt for T {}
}
pub use authority_shim::{StateReadExt as _, StateWriteExt as _};

pub mod ibc_shim {
    use super::*;
    pub trait StateReadExt: StateRead {
        fn get_ibc_sudo_address(&self) -> eyre::Result<[u8; ADDRESS_LEN]> {
            if let Some(e) = io_err() { return e; }
            match store().get(Key::IbcSudo) { Some(v) => Ok(val_addr(v)), _ => Err(eyre::Report::new()) }
        }
        fn is_ibc_relayer<T: AddressBytes>(&self, address: T) -> eyre::Result<bool> {
            if let Some(e) = io_err() { return e; }
            Ok(store().get(Key::IbcRelayer(*address.address_bytes())).is_some())
        }
        fn has_ibc_asset<'a, TAsset>(&self, asset: &'a TAsset) -> eyre::Result<bool>
        where TAsset: Sync + 'a, &'a TAsset: Into<Cow<'a, asset::IbcPrefixed>> {
            if let Some(e) = io_err() { return e; }
            let x: Cow<'a, IbcPrefixed> = asset.into();
            Ok(store().get(Key::IbcAsset(*x)).is_some())
        }
        fn get_ibc_channel_balance<'a, TAsset>(&self, channel: &ChannelId, asset: &'a TAsset) -> eyre::Result<u128>
        where TAsset: Sync + 'a, &'a TAsset: Into<Cow<'a, asset::IbcPrefixed>> {
            if let Some(e) = io_err() { return e; }
            let x: Cow<'a, IbcPrefixed> = asset.into();
            match store().get(Key::IbcChannelBalance(channel.0, *x)) { Some(v) => Ok(v), None => Ok(0) }
        }
    }
    impl<T: StateRead + ?Sized> StateReadExt for T {}
    pub trait StateWriteShim: StateWrite {
        fn put_ibc_sudo_address<T: AddressBytes>(&mut self, address: T) -> eyre::Result<()> { store().put(Key::IbcSudo, addr_val(address.address_bytes())); Ok(()) }
        fn put_ibc_relayer_address<T: AddressBytes>(&mut self, address: &T) -> eyre::Result<()> { store().put(Key::IbcRelayer(*address.address_bytes()), 0); Ok(()) }
        fn delete_ibc_relayer_address<T: AddressBytes>(&mut self, address: &T) { store().delete(Key::IbcRelayer(*address.address_bytes())); }
        fn put_ibc_asset(&mut self, asset: TracePrefixed) -> eyre::Result<()> { store().put(Key::IbcAsset(asset.to_ibc_prefixed()), 1); Ok(()) }
        fn put_ibc_channel_balance<'a, TAsset>(&mut self, channel: &ChannelId, asset: &'a TAsset, balance: u128) -> eyre::Result<()>
        where TAsset: Sync + 'a, &'a TAsset: Into<Cow<'a, asset::IbcPrefixed>> {
            let x: Cow<'a, IbcPrefixed> = asset.into();
            store().put(Key::IbcChannelBalance(channel.0, *x), balance); Ok(())
        }
    }
    impl<T: StateWrite + ?Sized> StateWriteShim for T {}
}
pub use ibc_shim::{StateReadExt as _, StateWriteShim as _};

pub mod fees_shim {
    use super::*;
    pub trait StateReadExt: StateRead {
        fn is_allowed_fee_asset<'a, TAsset>(&self, asset: &'a TAsset) -> eyre::Result<bool>
        where TAsset: Sync + std::fmt::Display + 'a, &'a TAsset: Into<Cow<'a, asset::IbcPrefixed>> {
            if let Some(e) = io_err() { return e; }
            let x: Cow<'a, IbcPrefixed> = asset.into();
            Ok(store().get(Key::FeeAssetAllowed(*x)).is_some())
        }
    }
    impl<T: StateRead + ?Sized> StateReadExt for T {}
    pub trait StateWriteShim: StateWrite {
        fn put_allowed_fee_asset<'a, TAsset>(&mut self, asset: &'a TAsset) -> eyre::Result<()>
        where TAsset: Sync + std::fmt::Display + 'a, &'a TAsset: Into<Cow<'a, asset::IbcPrefixed>> {
            let x: Cow<'a, IbcPrefixed> = asset.into();
            store().put(Key::FeeAssetAllowed(*x), 0); Ok(())
        }
        fn delete_allowed_fee_asset<'a, TAsset>(&mut self, asset: &'a TAsset)
        where TAsset: Sync + std::fmt::Display + 'a, &'a TAsset: Into<Cow<'a, asset::IbcPrefixed>> {
            let x: Cow<'a, IbcPrefixed> = asset.into();
            store().delete(Key::FeeAssetAllowed(*x));
        }
    }
    impl<T: StateWrite + ?Sized> StateWriteShim for T {}
}
pub use fees_shim::{StateReadExt as _, StateWriteShim as _};

pub mod validators_shim {
    use super::*;
    #[derive(Clone, Copy, Debug, PartialEq, Eq)]
    pub struct VerificationKey { pub addr: [u8; ADDRESS_LEN] }
    impl VerificationKey { pub fn address_bytes(&self) -> &[u8; ADDRESS_LEN] { &self.addr } pub fn display_address(&self) -> u8 { 0 } }
    impl AddressBytes for VerificationKey { fn address_bytes(&self) -> &[u8; ADDRESS_LEN] { &self.addr } }
    #[derive(Clone, Copy, Debug, PartialEq, Eq)]
    pub struct ValidatorUpdate { pub power: u32, pub verification_key: VerificationKey, pub name: u8 }
    /// the per-block update set (keyed by verification key): read-modify-write of one entry
    pub struct ValidatorSet { pub changed: Option<ValidatorUpdate>, pub removed: Option<VerificationKey> }
    impl ValidatorSet {
        pub fn insert(&mut self, u: ValidatorUpdate) { self.changed = Some(u); }
        /// entry of the stored per-block update set for this key (the set as read from state, plus local edits)
        pub fn get(&self, k: &VerificationKey) -> Option<ValidatorUpdate> {
            if let Some(u) = self.changed { if u.verification_key == *k { return Some(u); } }
            if self.removed == Some(*k) { return None; }
            store().get(Key::BlockValidatorUpdate(k.addr)).map(|v| ValidatorUpdate { power: v as u32, verification_key: *k, name: 0 })
        }
        pub fn remove(&mut self, k: &VerificationKey) -> Option<ValidatorUpdate> {
            let old = self.get(k);
            if let Some(u) = self.changed { if u.verification_key == *k { self.changed = None; } }
            self.removed = Some(*k);
            old
        }
    }
    pub trait StateReadExt: StateRead {
        fn get_validator_count(&self) -> eyre::Result<u64> {
            if let Some(e) = io_err() { return e; }
            match store().get(Key::ValidatorCount) { Some(v) => Ok(v as u64), None => Err(eyre::Report::new()) }
        }
        fn get_validator<T: AddressBytes>(&self, key: &T) -> eyre::Result<Option<ValidatorUpdate>> {
            if let Some(e) = io_err() { return e; }
            Ok(store().get(Key::Validator(*key.address_bytes())).map(|v| ValidatorUpdate { power: v as u32, verification_key: VerificationKey { addr: *key.address_bytes() }, name: 0 }))
        }
        fn get_block_validator_updates(&self) -> eyre::Result<ValidatorSet> {
            if let Some(e) = io_err() { return e; }
            Ok(ValidatorSet { changed: None, removed: None })
        }
    }
    impl<T: StateRead + ?Sized> StateReadExt for T {}
    pub trait StateWriteExt: StateWrite {
        fn put_validator_count(&mut self, count: u64) -> eyre::Result<()> { store().put(Key::ValidatorCount, count as Val); Ok(()) }
        fn put_validator(&mut self, v: &ValidatorUpdate) -> eyre::Result<()> { store().put(Key::Validator(v.verification_key.addr), v.power as Val); Ok(()) }
        fn remove_validator<T: AddressBytes>(&mut self, key: &T) { store().delete(Key::Validator(*key.address_bytes())); }
        fn put_block_validator_updates(&mut self, set: ValidatorSet) -> eyre::Result<()> {
            if let Some(k) = set.removed { store().delete(Key::BlockValidatorUpdate(k.addr)); }
            if let Some(u) = set.changed { store().put(Key::BlockValidatorUpdate(u.verification_key.addr), u.power as Val); }
            Ok(())
        }
    }
    impl<T: StateWrite + ?Sized> StateWriteExt for T {}
}
pub use validators_shim::{StateReadExt as _, StateWriteExt as _, ValidatorUpdate, ValidatorSet, VerificationKey};

pub mod upgrades_shim {
    use super::*;
    /// upgrade change names are opaque ids; presence of Key::Upgrade(change) means "activated"
    pub struct Blackburn; impl Blackburn { pub const NAME: u8 = 1; }
    pub struct Aspen; impl Aspen { pub const NAME: u8 = 2; }
    pub struct DisableableBridgeAccountDeposits; impl DisableableBridgeAccountDeposits { pub const NAME: u8 = 11; }
    pub struct AllowIbcRelayToFail; impl AllowIbcRelayToFail { pub const NAME: u8 = 12; }
    pub struct ValidatorUpdateActionChange; impl ValidatorUpdateActionChange { pub const NAME: u8 = 13; }
    pub struct Ics20TransferActionChange; impl Ics20TransferActionChange { pub const NAME: u8 = 14; }
    pub trait StateReadExt: StateRead {
        fn get_upgrade_change_info(&self, _upgrade: &u8, change: &u8) -> eyre::Result<Option<()>> {
            if let Some(e) = io_err() { return e; }
            Ok(store().get(Key::Upgrade(*change)).map(|_| ()))
        }
    }
    impl<T: StateRead + ?Sized> StateReadExt for T {}
}
pub use upgrades_shim::{StateReadExt as _, Blackburn, Aspen, DisableableBridgeAccountDeposits, AllowIbcRelayToFail, ValidatorUpdateActionChange, Ics20TransferActionChange};

pub fn reset_store() {
    let s = store();
    s.slots = [None; CAP]; s.n = 0; s.wrote_undeclared = false; s.read_undeclared = false;
    s.deposits = [None, None, None]; s.n_deposits = 0; s.events = 0; s.deposit_events = 0; s.allow_io_err = false; s.storage_error = false;
}

/// `InsufficientFunds` (extracted from accounts/state_ext.rs into `mod accounts`) marks the report so that
/// `downcast_ref::<InsufficientFunds>()` keeps its meaning
#[macro_export]
macro_rules! vx_insufficient_funds_marker {
    () => {
        impl $crate::eyre::IntoReport for $crate::accounts::InsufficientFunds {
            fn into_report(self) -> $crate::eyre::Report { $crate::eyre::Report { insufficient_funds: true } }
        }
        impl $crate::eyre::Report {
            pub fn downcast_ref<T>(&self) -> Option<&()> { if self.insufficient_funds { Some(&()) } else { None } }
        }
    };
}
