"""Run Verus / Kani on generated units and normalise their verdicts."""
import json
import os
import re
import shutil
import subprocess
import time

BUILD = os.environ.get("VX_BUILD", "/verif/build")
SCRATCH = os.environ.get("VX_SCRATCH", "/scratch")

VERUS_FAIL_KINDS = [
    "postcondition not satisfied", "precondition not satisfied", "invariant not satisfied",
    "assertion failed", "possible arithmetic underflow/overflow", "possible division by zero",
    "unreachable", "decreases not satisfied", "could not prove termination", "might panic", "panic",
    "possible bit shift underflow/overflow", "index out of bounds",
]


class Obl:
    """one obligation verdict"""
    def __init__(self, name, backend, status, time_s=0.0, detail="", checks=1, rlimit=None):
        self.name, self.backend, self.status = name, backend, status   # status: ok | fail | undecided
        self.time_s, self.detail, self.checks, self.rlimit = time_s, detail, checks, rlimit

    def as_dict(self):
        d = {"obligation": self.name, "backend": self.backend, "status": self.status,
             "time_s": round(self.time_s, 3), "checks": self.checks}
        if self.rlimit is not None:
            d["rlimit"] = self.rlimit
        if self.detail:
            d["detail"] = self.detail[:4000]
        return d


def fn_line_map(text):
    """list of (start_line, end_line, qualified fn name) for `fn` items (1-based lines)"""
    from . import rustcut as rc
    m = rc.mask(text)
    res = []
    # qualified by enclosing impl type when directly inside impl
    impls = []
    for mm in re.finditer(r"\bimpl\b[^{;]*\{", m):
        try:
            cl = rc.match_close(m, mm.end() - 1)
        except ValueError:
            continue
        hdr = rc.norm(m[mm.start():mm.end() - 1])
        hdr = rc._strip_generics(hdr)
        ty = hdr.split(" for ")[-1].replace("impl", "").strip()
        impls.append((mm.start(), cl, ty))
    for mm in re.finditer(r"\bfn\s+([A-Za-z_][A-Za-z0-9_]*)", m):
        j = mm.end()
        body = None
        while j < len(m):
            c = m[j]
            if c in "([":
                j = rc.match_close(m, j)
            elif c == "{":
                body = (j, rc.match_close(m, j))
                break
            elif c == ";":
                break
            j += 1
        if body is None:
            continue
        q = mm.group(1)
        inner = [(a, b, t) for a, b, t in impls if a < mm.start() < b]
        if inner:
            a, b, t = max(inner, key=lambda x: x[0])
            q = t + "::" + q
        l0 = text.count("\n", 0, mm.start()) + 1
        l1 = text.count("\n", 0, body[1]) + 1
        res.append((l0, l1, q))
    return res


def run_verus(unit_name, text, rlimit=None, seed=None, timeout=600, extra_args=None):
    """returns (obligations, meta). A function is one obligation bundle; failed clauses are listed in detail."""
    d = os.path.join(BUILD, "verus", unit_name)
    os.makedirs(d, exist_ok=True)
    f = os.path.join(d, unit_name + ".rs")
    open(f, "w").write(text)
    cmd = ["verus", f, "--output-json", "--time", "--multiple-errors", "20", "--crate-name", unit_name]
    if rlimit:
        cmd += ["--rlimit", str(rlimit)]
    if seed is not None:
        cmd += ["-V", "smt-option=smt.random_seed=%d" % (seed % 100000), "-V", "smt-option=sat.random_seed=%d" % (seed % 100000)]
    if extra_args:
        cmd += extra_args
    t0 = time.time()
    try:
        p = subprocess.run(cmd, capture_output=True, text=True, timeout=timeout, cwd=d)
        out, err, rcode = p.stdout, p.stderr, p.returncode
    except subprocess.TimeoutExpired as e:
        return [Obl(unit_name + "::<verus>", "verus", "undecided", timeout, "verus timed out")], {"cmd": " ".join(cmd), "wall_s": timeout}
    wall = time.time() - t0
    meta = {"cmd": " ".join(cmd), "wall_s": round(wall, 2), "file": f}
    open(os.path.join(d, "stderr.txt"), "w").write(err)
    open(os.path.join(d, "stdout.json"), "w").write(out)
    try:
        js = json.loads(out)
    except Exception:
        return [Obl(unit_name + "::<verus>", "verus", "undecided", wall, "no JSON from verus:\n" + err[-3000:])], meta
    vr = js.get("verification-results", {})
    meta["verified"] = vr.get("verified")
    meta["errors"] = vr.get("errors")
    meta["smt_ms"] = js.get("times-ms", {}).get("smt", {}).get("total")
    breakdown = []
    for mod in js.get("times-ms", {}).get("smt", {}).get("smt-run-module-times", []):
        breakdown += mod.get("function-breakdown", [])
    if vr.get("encountered-vir-error") or (not breakdown and not vr.get("success")):
        return [Obl(unit_name + "::<verus>", "verus", "undecided", wall, "verus rejected the unit (front-end error):\n" + err[-4000:])], meta
    # diagnostics -> per function
    lm = fn_line_map(text)
    diags = {}
    undecided_fns = set()
    for blk in re.split(r"\n(?=error|warning|note)", err):
        mm = re.match(r"(error|warning|note)(\[[A-Z0-9]+\])?: (.*)", blk)
        if not mm or mm.group(1) != "error":
            continue
        msg = mm.group(3).strip()
        if msg.startswith("aborting due to"):
            continue
        lines = [int(x) for x in re.findall(r"--> [^\n:]+:(\d+):\d+", blk)]
        # attribute to the function that contains "at the end of the function body"/first span
        spans = [int(x) for x in re.findall(r"^\s*(\d+)\s*\|", blk, re.M)]
        cand = lines + spans
        fn = None
        for ln in cand:
            for l0, l1, q in lm:
                if l0 <= ln <= l1:
                    fn = q
                    break
            if fn:
                break
        # the span of a failing ensures is in the signature area, before l0..: use nearest following fn
        if fn is None and cand:
            ln = cand[0]
            after = [(l0, q) for l0, l1, q in lm if l0 >= ln]
            before = [(l1, q) for l0, l1, q in lm if l1 <= ln]
            fn = (min(after)[1] if after else (max(before)[1] if before else None))
        clause = ""
        cm = re.search(r"^\s*\d+\s*\|\s*(.*)\n\s*\|\s*(\^+)", blk, re.M)
        if cm:
            clause = cm.group(1).strip()
        diags.setdefault(fn, []).append((msg, clause, blk.strip()))
        if "rlimit" in msg.lower() or "resource limit" in msg.lower() or "timed out" in msg.lower():
            undecided_fns.add(fn)
    obls = []
    crate = unit_name
    for fb in breakdown:
        q = fb["function"]
        short = q[len(crate) + 2:] if q.startswith(crate + "::") else q
        if short.startswith("vstd::") or q.startswith("vstd::"):
            continue
        ok = fb.get("success", False)
        st = "ok" if ok else "fail"
        detail = ""
        if not ok:
            key = None
            if short in diags:
                key = short
            else:
                last = short.split("::")[-1]
                cands = [k for k in diags if k and k.split("::")[-1] == last]
                same_last = [fb2 for fb2 in breakdown if fb2["function"].split("::")[-1] == last]
                if len(cands) == 1 and len(same_last) == 1:
                    key = cands[0]
            ds = diags.get(key, [])
            if key in undecided_fns or not ds:
                st = "undecided"
            if ds and all(("rlimit" in x[0].lower() or "resource limit" in x[0].lower()) for x in ds):
                st = "undecided"
            detail = "\n".join("%s :: %s" % (a, b) for a, b, _ in ds) + "\n" + "\n".join(c for _, _, c in ds)[:3000]
        obls.append(Obl(unit_name + "::" + short, "verus/z3", st, fb.get("time-micros", 0) / 1e6, detail, 1, fb.get("rlimit")))
    if not obls:
        obls.append(Obl(unit_name + "::<verus>", "verus", "undecided", wall, "no functions verified:\n" + err[-3000:]))
    # errors not attributed to any function in breakdown (e.g. recommends) are ignored; rust errors handled above
    return obls, meta


# --------------------------------------------------------------------------------------------

KANI_ENV = dict(os.environ, CARGO_NET_OFFLINE="true")


def kani_crate(unit_name, lib_rs, deps_toml="", edition="2021"):
    d = os.path.join(BUILD, "kani", unit_name)
    os.makedirs(os.path.join(d, "src"), exist_ok=True)
    open(os.path.join(d, "Cargo.toml"), "w").write(
        '[package]\nname = "%s"\nversion = "0.0.0"\nedition = "%s"\n\n[lib]\npath = "src/lib.rs"\n\n[dependencies]\n%s\n'
        '[lints.rust]\nunexpected_cfgs = { level = "allow", check-cfg = ["cfg(kani)"] }\n[workspace]\n' % (unit_name, edition, deps_toml))
    open(os.path.join(d, "src", "lib.rs"), "w").write(lib_rs)
    return d


def parse_kani(out):
    """per harness: status, checks, failed checks.  Handles sequential output and the `Thread N:` interleaving of -j."""
    res = {}
    # split into segments attributed to a harness
    segs = {}          # harness -> text
    thread_h = {}      # thread id -> harness
    cur = None
    for line in out.split("\n"):
        mm = re.match(r"(?:Thread (\d+): )?Checking harness (\S+?)\.\.\.\s*$", line)
        if mm:
            h = mm.group(2)
            segs.setdefault(h, "")
            if mm.group(1) is not None:
                thread_h[mm.group(1)] = h
                cur = None
            else:
                cur = h
            continue
        mm = re.match(r"Thread (\d+):\s*(.*)$", line)
        if mm:
            cur = thread_h.get(mm.group(1))
            if cur is not None and mm.group(2):
                segs[cur] += mm.group(2) + "\n"
            continue
        if line.startswith("Manual Harness Summary") or line.startswith("Complete - ") or line.startswith("---- stderr"):
            cur = None
            continue
        if cur is not None:
            segs[cur] += line + "\n"
    for h, b in segs.items():
        st = "undecided"
        if re.search(r"VERIFICATION:- SUCCESSFUL", b):
            st = "ok"
        elif re.search(r"VERIFICATION:- FAILED", b):
            st = "fail"
        timed_out = bool(re.search(r"CBMC timed out|CBMC failed|out of memory|Killed", b))
        if timed_out and not re.search(r"\*\* \d+ of \d+ failed", b):
            st = "undecided"
        cm = re.search(r"\*\* (\d+) of (\d+) failed", b)
        checks = int(cm.group(2)) if cm else 0
        failed = [(re.sub(r"\s+", " ", a), f, l, fn) for a, f, l, fn in re.findall(r"Failed Checks: ((?:.|\n)*?)\n\s*File: \"([^\"]*)\", line (\d+), in (\S+)", b)]
        tm = re.search(r"Verification Time: ([0-9.]+)s", b)
        und = any("unwinding assertion" in f[0] for f in failed)
        res[h] = {"status": st, "checks": checks, "failed": failed, "time": float(tm.group(1)) if tm else 0.0,
                  "raw": b[-6000:], "unwind_fail": und, "timed_out": timed_out}
    return res


def run_kani(unit_name, crate_dir, harnesses=None, timeout=1800, jobs=8, extra=None, playback=False, harness_timeout=600):
    cmd = ["cargo", "kani", "-Z", "function-contracts", "-Z", "stubbing", "-Z", "unstable-options", "--harness-timeout", "%ds" % harness_timeout,
           "--output-format", "terse"]
    if not playback:
        cmd += ["-j", str(jobs)]
    if playback:
        cmd += ["-Z", "concrete-playback", "--concrete-playback=print"]
    if harnesses:
        cmd += ["--exact"]
    for h in harnesses or []:
        cmd += ["--harness", h if "::" in h else "vx_harness::" + h]
    if extra:
        cmd += extra
    env = dict(KANI_ENV, CARGO_TARGET_DIR=os.path.join(BUILD, "kani-target", unit_name))
    t0 = time.time()
    try:
        p = subprocess.run(cmd, capture_output=True, text=True, timeout=timeout, cwd=crate_dir, env=env)
        out, err = p.stdout, p.stderr
    except subprocess.TimeoutExpired as e:
        out = (e.stdout or b"").decode() if isinstance(e.stdout, bytes) else (e.stdout or "")
        err = "TIMEOUT"
    wall = time.time() - t0
    os.makedirs(os.path.join(BUILD, "kani-out"), exist_ok=True)
    open(os.path.join(BUILD, "kani-out", unit_name + (".playback" if playback else "") + ".out"), "w").write(out + "\n---- stderr ----\n" + err)
    res = parse_kani(out)
    meta = {"cmd": " ".join(cmd), "wall_s": round(wall, 2), "crate": crate_dir}
    if not res:
        meta["error"] = (err or out)[-5000:]
    return res, meta, out, err


def rm_rf(p):
    shutil.rmtree(p, ignore_errors=True)
