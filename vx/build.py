"""Cut items from /repo, apply the rewrite rules of DESIGN §3, splice contracts, assemble units."""
import hashlib
import os
import re
from . import rustcut as rc

REPO = os.environ.get("VX_REPO", "/repo")


class Unsupported(Exception):
    """extraction or rewriting cannot proceed (exit 2, never a violation)"""


class Counter(dict):
    def hit(self, rule, n=1):
        if n:
            self[rule] = self.get(rule, 0) + n


# --------------------------------------------------------------------------------------------
# generic masked substitution

def sub_masked(text, pattern, repl, counter=None, rule=None, flags=0):
    """regex match on masked text (strings/comments blanked), replace in real text."""
    m = rc.mask(text)
    out, last, n = [], 0, 0
    for mm in re.finditer(pattern, m, flags):
        out.append(text[last:mm.start()])
        if callable(repl):
            out.append(repl(mm, text))
        else:
            out.append(repl)
        last = mm.end()
        n += 1
    out.append(text[last:])
    if counter is not None and rule:
        counter.hit(rule, n)
    return "".join(out)


KEEP_DERIVES_K = {"Clone", "Copy", "Debug", "PartialEq", "Eq", "PartialOrd", "Ord", "Hash", "Default"}


def rule_attrs(text, counter, mode, keep_derives=None):
    """R1: drop attributes (and doc comments, already gone with comments).
    derive lists are filtered to std derives in mode K, removed in mode V."""
    m = rc.mask(text)
    out, last = [], 0
    i = 0
    n = len(text)
    while i < n:
        if m[i] == "#":
            j = i + 1
            inner = False
            if j < n and m[j] == "!":
                inner = True
                j += 1
            while j < n and m[j].isspace():
                j += 1
            if j < n and m[j] == "[":
                k = rc.match_close(m, j)
                body = text[j + 1:k].strip()
                name = re.match(r"[A-Za-z_:0-9]+", body)
                name = name.group(0) if name else ""
                repl = ""
                if name == "derive":
                    lst = [d.strip() for d in body[body.index("(") + 1:body.rindex(")")].split(",") if d.strip()]
                    keep = KEEP_DERIVES_K if keep_derives is None else keep_derives
                    kept = [d for d in lst if d.split("::")[-1] in keep and "::" not in d or d in keep]
                    if kept:
                        repl = "#[derive(%s)]" % ", ".join(kept)
                    counter.hit("R1.derive")
                elif name == "cfg":
                    if rc.squeeze(body) in ("cfg(test)",):
                        # R1b: statement-level cfg(test): delete attribute + following statement/block
                        end = _following_stmt_end(m, k + 1)
                        out.append(text[last:i])
                        last = end
                        i = end
                        counter.hit("R1b.cfg_test_stmt")
                        continue
                    if rc.squeeze(body) in ("cfg(not(test))",):
                        counter.hit("R1b.cfg_not_test")
                        repl = ""
                    else:
                        repl = text[i:k + 1]
                elif name in ("default",) and mode == "K":
                    repl = text[i:k + 1]
                else:
                    counter.hit("R1.attr")
                out.append(text[last:i])
                out.append(repl)
                last = k + 1
                i = k + 1
                continue
        i += 1
    out.append(text[last:])
    return "".join(out)


def _following_stmt_end(m, i):
    """end offset (exclusive) of the statement / block that starts at or after i (masked text)."""
    n = len(m)
    while i < n and m[i].isspace():
        i += 1
    j = i
    while j < n:
        c = m[j]
        if c in "([":
            j = rc.match_close(m, j)
        elif c == "{":
            j = rc.match_close(m, j)
            # `if .. {..} else {..}` continues; otherwise block ends the statement
            rest = m[j + 1:j + 40].lstrip()
            if rest.startswith("else"):
                j += 1
                continue
            if rest.startswith(";"):
                return j + 1 + (len(m[j + 1:j + 40]) - len(rest)) + 1
            return j + 1
        elif c == ";":
            return j + 1
        j += 1
    return n


def rule_async(text, counter):
    """R2: drop `async` and `.await`."""
    text = sub_masked(text, r"\basync\s+(?=fn\b|move\b|\{|\|)", "", counter, "R2.async")
    text = sub_masked(text, r"\s*\.\s*await\b", "", counter, "R2.await")
    return text


def rule_vis_strip(text, counter=None):
    """R3 (mode V): all visibility qualifiers removed -- the unit is one module, and Verus treats
    a datatype with any private field as opaque in public contracts."""
    return sub_masked(text, r"\bpub\s*(\(\s*(crate|super|self|in\s+[A-Za-z_:]+)\s*\))?\s+", "", counter, "R3.vis")


def rule_vis(text, counter):
    """R3: pub(..) -> pub"""
    return sub_masked(text, r"\bpub\s*\(\s*(crate|super|self|in\s+[A-Za-z_:]+)\s*\)", "pub", counter, "R3.vis")


def rule_macros_v(text, counter):
    """R6 (mode V): ensure!/bail! and error-context adapters."""
    m = rc.mask(text)
    # ensure!(cond, ...) -> if !(cond) { return Err(vx_err()); }
    out, last = [], 0
    for mm in re.finditer(r"\b(ensure|bail)\s*!\s*\(", m):
        if mm.start() < last:
            continue
        op = mm.end() - 1
        cl = rc.match_close(m, op)
        args = _split_top(text[op + 1:cl], m[op + 1:cl])
        end = cl + 1
        k = end
        while k < len(m) and m[k].isspace():
            k += 1
        if k < len(m) and m[k] == ";":
            end = k + 1
        out.append(text[last:mm.start()])
        if mm.group(1) == "ensure":
            out.append("if !(%s) { return Err(vx_err()); }" % args[0].strip())
            counter.hit("R6.ensure")
        else:
            out.append("return Err(vx_err());")
            counter.hit("R6.bail")
        last = end
    out.append(text[last:])
    text = "".join(out)
    # .wrap_err("..") / .wrap_err_with(|| ..) / .context(..) / .with_context(..) -> deleted
    for name in ("wrap_err_with", "wrap_err", "with_context", "context"):
        text = _delete_method_call(text, name, counter, "R6." + name)
    text = _replace_method_call(text, "ok_or_eyre", ".ok_or(vx_err())", counter, "R6.ok_or_eyre")
    return text


def _split_top(real, masked):
    parts, depth, last = [], 0, 0
    for i, c in enumerate(masked):
        if c in rc.OPEN:
            depth += 1
        elif c in rc.CLOSE:
            depth -= 1
        elif c == "," and depth == 0:
            parts.append(real[last:i])
            last = i + 1
    parts.append(real[last:])
    return parts


def _delete_method_call(text, name, counter, rule):
    return _replace_method_call(text, name, "", counter, rule)


def _replace_method_call(text, name, repl, counter, rule):
    while True:
        m = rc.mask(text)
        mm = re.search(r"\s*\.\s*%s\s*\(" % re.escape(name), m)
        if not mm:
            return text
        op = mm.end() - 1
        cl = rc.match_close(m, op)
        text = text[:mm.start()] + repl + text[cl + 1:]
        counter.hit(rule)


def rule_for_to_while(text, counter):
    """R8 (structural): `for PAT in &EXPR {` / `for PAT in EXPR.iter() {` over a Vec/slice ->
    index while loop. Body untouched.  Only applied where the unit recipe asks for it."""
    idx = [0]

    def once(text):
        m = rc.mask(text)
        mm = re.search(r"\bfor\s+", m)
        while mm:
            # find ` in ` at depth 0 after pattern
            i = mm.end()
            depth = 0
            j = i
            while j < len(m):
                c = m[j]
                if c in rc.OPEN:
                    j = rc.match_close(m, j)
                elif re.match(r"\bin\b", m[j:j + 3]) and (m[j - 1].isspace()) and m[j + 2].isspace():
                    break
                j += 1
            pat = text[i:j].strip()
            k = j + 2
            # expr up to `{` at depth 0
            e = k
            while e < len(m) and m[e] != "{":
                if m[e] in "([":
                    e = rc.match_close(m, e)
                e += 1
            expr = text[k:e].strip()
            body_close = rc.match_close(m, e)
            src_expr = None
            mref = re.match(r"^&\s*(mut\s+)?(.+)$", expr, re.S)
            mit = re.match(r"^(.+?)\s*\.\s*iter\s*\(\s*\)$", expr, re.S)
            if mref and not mref.group(1):
                src_expr = mref.group(2).strip()
            elif mit:
                src_expr = mit.group(1).strip()
            if src_expr is not None:
                n = idx[0]
                idx[0] += 1
                iv = "vx_i%d" % n
                new = ("let mut %s: usize = 0;\n while %s < %s.len() {\n let %s = &%s[%s]; %s += 1;"
                       % (iv, iv, src_expr, pat, src_expr, iv, iv))
                return text[:mm.start()] + new + text[e + 1:], True
            mm = re.compile(r"\bfor\s+").search(m, body_close)
        return text, False

    changed = True
    while changed:
        text, changed = once(text)
        if changed:
            counter.hit("R8.for_to_while")
    return text


def rule_chunks_to_while(text, counter):
    """R8 (structural): `for PAT in EXPR.chunks(N) {` -> index while loop over vx_chunk_count/vx_chunk
    (specified stand-ins for the slice chunks iterator). Body untouched."""
    n = [0]
    while True:
        m = rc.mask(text)
        mm = re.search(r"\bfor\s+([A-Za-z_][A-Za-z0-9_]*)\s+in\s+([A-Za-z_][A-Za-z0-9_.]*?)\s*\.\s*chunks\s*\(\s*([0-9A-Za-z_]+)\s*\)\s*\{", m)
        if not mm:
            return text
        c = "vx_c%d" % n[0]
        n[0] += 1
        new = ("let mut %s: usize = 0;\n while %s < vx_chunk_count(%s, %s) {\n let %s = vx_chunk(%s, %s, %s); %s += 1;"
               % (c, c, mm.group(2), mm.group(3), mm.group(1), mm.group(2), mm.group(3), c, c))
        text = text[:mm.start()] + new + text[mm.end():]
        counter.hit("R8.chunks_to_while")


def rule_map_ctor(text, counter):
    """R12: `E.map(Ctor)` with a tuple-struct constructor used as a function value ->
    match E { Some(vx_v) => Some(Ctor(vx_v)), None => None }"""
    while True:
        m = rc.mask(text)
        mm = re.search(r"\.\s*map\s*\(\s*((?:Self|[A-Z][A-Za-z0-9_]*)(?:::[A-Z][A-Za-z0-9_]*)*)\s*\)", m)
        if not mm:
            return text
        r0 = _receiver_start(m, mm.start())
        recv = text[r0:mm.start()].strip()
        text = text[:r0] + "(match %s { Some(vx_v) => Some(%s(vx_v)), None => None })" % (recv, mm.group(1)) + text[mm.end():]
        counter.hit("R12.map_ctor")


def rule_or_else(text, counter):
    """R11: `E.or_else(|| B)` -> match E { Some(vx_v) => Some(vx_v), None => B } (same evaluation order)."""
    while True:
        m = rc.mask(text)
        mm = re.search(r"\.\s*or_else\s*\(\s*\|\s*\|", m)
        if not mm:
            return text
        op = m.index("(", mm.start())
        cl = rc.match_close(m, op)
        closure_body = text[mm.end():cl].strip()
        # receiver: walk back over a postfix expression chain
        r0 = _receiver_start(m, mm.start())
        recv = text[r0:mm.start()].strip()
        text = (text[:r0] + "(match %s { Some(vx_v) => Some(vx_v), None => %s })" % (recv, closure_body) + text[cl + 1:])
        counter.hit("R11.or_else")


def _receiver_start(m, end):
    """start offset of the postfix expression ending at `end` (masked)."""
    i = end - 1
    while i >= 0:
        while i >= 0 and m[i].isspace():
            i -= 1
        c = m[i]
        if c in ")]":
            # find matching opener backwards
            depth = 0
            while i >= 0:
                if m[i] in rc.CLOSE:
                    depth += 1
                elif m[i] in rc.OPEN:
                    depth -= 1
                    if depth == 0:
                        break
                i -= 1
            i -= 1
            continue
        if c.isalnum() or c == "_":
            while i >= 0 and (m[i].isalnum() or m[i] == "_"):
                i -= 1
            # path or field access continues
            k = i
            while k >= 0 and m[k].isspace():
                k -= 1
            if k >= 0 and m[k] == ".":
                i = k - 1
                continue
            if k >= 1 and m[k - 1:k + 1] == "::":
                i = k - 2
                continue
            if k >= 0 and m[k] == "?":
                i = k - 1
                continue
            return i + 1
        if c == "?":
            i -= 1
            continue
        return i + 1
    return 0


# --------------------------------------------------------------------------------------------
# cutting

class Cut:
    def __init__(self, file, path, text, impl_header, kind, sha):
        self.file, self.path, self.text = file, path, text
        self.impl_header, self.kind, self.sha = impl_header, kind, sha
        self.name = path.split("/")[-1].split(" ", 1)[1] if " " in path.split("/")[-1] else path


_src_cache = {}


def read_repo(file):
    p = os.path.join(REPO, file)
    if p not in _src_cache:
        if not os.path.exists(p):
            raise rc.LostAnchor("file not found: %s" % file)
        s = open(p).read()
        _src_cache[p] = (s, rc.mask(s))
    return _src_cache[p]


def cut(file, path, include_test=False):
    src, m = read_repo(file)
    it = rc.find(src, path, m, include_test)
    raw = src[it.start:it.end]
    sha = hashlib.sha256(raw.encode()).hexdigest()
    hdr = rc.enclosing_impl_header(src, path, m)
    text = rc.strip_comments(raw)
    return Cut(file, path, text, hdr[0] if hdr and hdr[1] in ("impl", "trait") else None, it.kind, sha)


# --------------------------------------------------------------------------------------------
# contract splicing (mode V): never edits executable tokens

def fn_parts(text):
    """(sig_start, body_open, body_close) of the first fn in text (masked offsets)."""
    m = rc.mask(text)
    mm = re.search(r"\bfn\b", m)
    if not mm:
        raise Unsupported("no fn in cut text")
    j = mm.end()
    while j < len(m):
        c = m[j]
        if c in "([":
            j = rc.match_close(m, j)
        elif c == "{":
            return mm.start(), j, rc.match_close(m, j)
        elif c == ";":
            return mm.start(), None, j
        j += 1
    raise Unsupported("fn without body")


def splice_fn_spec(text, spec, ret_name="ret"):
    """insert requires/ensures/decreases before the body; name the return value."""
    if not spec or not spec.strip():
        return text
    m = rc.mask(text)
    s, bo, bc = fn_parts(text)
    if bo is None:
        raise Unsupported("cannot put a contract on a bodyless fn")
    sig = text[s:bo]
    msig = m[s:bo]
    # locate params close paren
    p_open = msig.index("(")
    p_close = rc.match_close(msig, p_open)
    after = sig[p_close + 1:]
    mafter = msig[p_close + 1:]
    wm = re.search(r"\bwhere\b", mafter)
    where = ""
    if wm:
        where = after[wm.start():]
        after = after[:wm.start()]
        mafter = mafter[:wm.start()]
    am = re.search(r"->", mafter)
    if am:
        rty = after[am.end():].strip()
        if not rty.startswith("(") or ":" not in rty.split(")")[0]:
            after = after[:am.start()] + "-> (%s: %s)" % (ret_name, rty) + "\n"
    new_sig = sig[:p_close + 1] + after + (" " + where if where else "") + "\n" + spec.strip() + "\n"
    return text[:s] + new_sig + text[bo:]


def loop_positions(text):
    """offsets of the body-open brace of each while/loop/for in the first fn body, in source order"""
    m = rc.mask(text)
    s, bo, bc = fn_parts(text)
    res = []
    for mm in re.finditer(r"\b(while|loop|for)\b", m[bo:bc]):
        k = bo + mm.end()
        # `for<'a>` HRTB is not a loop
        if mm.group(1) == "for" and m[k:k + 1] == "<":
            continue
        j = k
        while j < bc:
            c = m[j]
            if c in "([":
                j = rc.match_close(m, j)
            elif c == "{":
                # `while let Some(x) = S { f: 1 }.next()` is not used in this code base
                res.append(j)
                break
            j += 1
    return res


def splice_loops(text, loops):
    if not loops:
        return text
    pos = loop_positions(text)
    ins = []
    for ordinal, inv in loops.items():
        if ordinal >= len(pos):
            raise rc.LostAnchor("loop ordinal %d not found (fn has %d loops)" % (ordinal, len(pos)))
        ins.append((pos[ordinal], "\n" + inv.strip() + "\n"))
    for p, t in sorted(ins, reverse=True):
        text = text[:p] + t + text[p:]
    return text


def splice_ghost(text, ghosts):
    """ghosts: list of (where, anchor_text, ghost_text); where in before|after.
    anchor_text must occur exactly once (whitespace-insensitive)."""
    for where, anchor, ghost in ghosts or []:
        if where == "start":
            # refactor-proof anchor: directly after the opening brace of the function body
            s_, bo, bc = fn_parts(text)
            text = text[:bo + 1] + "\n" + ghost.strip() + "\n" + text[bo + 1:]
            continue
        pat = r"\s*".join(re.escape(tok) for tok in re.findall(r"[A-Za-z_0-9]+|\S", anchor))
        ms = list(re.finditer(pat, text))
        if len(ms) != 1:
            raise rc.LostAnchor("ghost anchor %r matches %d times" % (anchor, len(ms)))
        p = ms[0].start() if where == "before" else ms[0].end()
        text = text[:p] + "\n" + ghost.strip() + "\n" + text[p:]
    return text


# --------------------------------------------------------------------------------------------
# assembling

def prepare_item(spec, mode, counter):
    """spec: dict(file, path, [spec], [loops], [ghost], [rewrites], [ret])"""
    c = cut(spec["file"], spec["path"], spec.get("include_test", False))
    t = c.text
    t = rule_attrs(t, counter, mode, spec.get("keep_derives"))
    t = rule_async(t, counter)
    t = rule_vis_strip(t, counter) if mode == "V" else rule_vis(t, counter)
    for rw in spec.get("rewrites", []):
        t = apply_rewrite(t, rw, counter)
    if mode == "V":
        if c.kind == "fn":
            t = splice_ghost(t, spec.get("ghost"))
            t = splice_loops(t, spec.get("loops"))
            t = splice_fn_spec(t, spec.get("spec"), spec.get("ret", "ret"))
    if spec.get("add_derive") and c.kind in ("struct", "enum"):
        t = "#[derive(%s)]\n" % spec["add_derive"] + t
    c.out = t
    return c


def apply_rewrite(t, rw, counter):
    if isinstance(rw, str):
        rw = {"rule": rw}
    rule = rw["rule"]
    before = dict(counter)
    if rule == "R6":
        t = rule_macros_v(t, counter)
    elif rule == "R8.for":
        t = rule_for_to_while(t, counter)
    elif rule == "R8.chunks":
        t = rule_chunks_to_while(t, counter)
    elif rule == "R12":
        t = rule_map_ctor(t, counter)
    elif rule == "R11":
        t = rule_or_else(t, counter)
    elif rule == "subst":
        # token-for-token replacement given by the recipe; must match exactly `count` times
        pat = r"\s*".join(re.escape(tok) for tok in re.findall(r"[A-Za-z_0-9]+|\S", rw["old"]))
        n = len(re.findall(pat, t))
        want = rw.get("count", 1)
        if n != want:
            raise rc.LostAnchor("rewrite %s: %r matches %d times, expected %d" % (rw.get("id", "subst"), rw["old"], n, want))
        t = re.sub(pat, lambda _m: rw["new"], t)
        counter.hit(rw.get("id", "subst"), n)
    elif rule == "regex":
        t, n = re.subn(rw["old"], rw["new"], t)
        if "count" in rw and n != rw["count"]:
            raise rc.LostAnchor("rewrite %s matched %d times, expected %d" % (rw.get("id", "regex"), n, rw["count"]))
        if rw.get("min", 0) > n:
            raise rc.LostAnchor("rewrite %s matched %d times, expected >= %d" % (rw.get("id", "regex"), n, rw["min"]))
        counter.hit(rw.get("id", "regex"), n)
    else:
        raise Unsupported("unknown rewrite rule %s" % rule)
    if "min" in rw and rule not in ("regex",):
        delta = sum(counter.values()) - sum(before.values())
        if delta < rw["min"]:
            raise rc.LostAnchor("rewrite %s applied %d times, expected >= %d" % (rule, delta, rw["min"]))
    return t


def assemble(items_specs, mode, counter):
    """returns (text, cuts).  Consecutive items of the same impl/trait are regrouped into one block;
    items with a `module` key are wrapped in `pub mod <module> { use super::*; .. }`."""
    cuts = [prepare_item(s, mode, counter) for s in items_specs]
    out = []
    cur_hdr = None
    cur_mod = None
    for c, spec in zip(cuts, items_specs):
        hdr = c.impl_header
        mod = spec.get("module")
        if hdr != cur_hdr or mod != cur_mod:
            if cur_hdr is not None:
                out.append("}\n")
            if mod != cur_mod:
                if cur_mod is not None:
                    out.append("} // mod %s\n" % cur_mod)
                if mod is not None:
                    out.append("pub mod %s {\n    use super::*;\n" % mod)
                cur_mod = mod
            if hdr is not None:
                out.append(("pub " if mod and hdr.startswith("trait") else "") + hdr + " {\n")
            cur_hdr = hdr
        out.append(c.out.rstrip() + "\n\n")
    if cur_hdr is not None:
        out.append("}\n")
    if cur_mod is not None:
        out.append("} // mod %s\n" % cur_mod)
    return "".join(out), cuts
