"""Mechanical extraction of Rust items by item path.

mask(src)      -> same-length text with comment and string/char contents blanked
items(src,...) -> list of Item at one nesting level
find(src,path) -> Item for a path such as  "impl SizedBundle/fn try_push"

Nothing here interprets Rust beyond lexing and bracket matching.
"""
import re
from dataclasses import dataclass, field

OPEN = "([{"
CLOSE = ")]}"
PAIR = {")": "(", "]": "[", "}": "{"}


def mask(src: str, keep_strings: bool = False) -> str:
    """Blank out comments (always) and string / char literal contents (unless keep_strings)."""
    out = list(src)
    i, n = 0, len(src)

    def blank(a, b):
        for k in range(a, b):
            if out[k] != "\n":
                out[k] = " "

    while i < n:
        c = src[i]
        if src.startswith("//", i):
            j = src.find("\n", i)
            j = n if j < 0 else j
            blank(i, j)
            i = j
        elif src.startswith("/*", i):
            depth, j = 1, i + 2
            while j < n and depth:
                if src.startswith("/*", j):
                    depth += 1
                    j += 2
                elif src.startswith("*/", j):
                    depth -= 1
                    j += 2
                else:
                    j += 1
            blank(i, j)
            i = j
        elif c == '"' or (c in "rb" and re.match(r'(br|rb|r|b)#*"', src[i:i + 8]) and (i == 0 or not (src[i - 1].isalnum() or src[i - 1] == "_"))):
            m = re.match(r'(br|rb|r|b)?(#*)"', src[i:i + 16])
            prefix, hashes = m.group(1) or "", m.group(2)
            start = i + m.end()
            if "r" in prefix:
                end_tok = '"' + hashes
                j = src.find(end_tok, start)
                j = n if j < 0 else j
                if not keep_strings:
                    blank(start, j)
                i = j + len(end_tok)
            else:
                j = start
                while j < n and src[j] != '"':
                    j += 2 if src[j] == "\\" else 1
                if not keep_strings:
                    blank(start, j)
                i = j + 1
        elif c == "'":
            # char literal or lifetime
            m = re.match(r"'(\\.[^']*|[^'\\])'", src[i:i + 12])
            if m:
                if not keep_strings:
                    blank(i + 1, i + m.end() - 1)
                i += m.end()
            else:
                i += 1
        else:
            i += 1
    return "".join(out)


def strip_comments(src: str) -> str:
    """Remove comments, keep strings; lines that become empty are dropped."""
    m = mask(src, keep_strings=True)
    lines = [l.rstrip() for l in m.split("\n")]
    out = []
    for l in lines:
        if l.strip() == "" and out and out[-1].strip() == "":
            continue
        out.append(l)
    return "\n".join(out)


def match_close(m: str, i: int) -> int:
    """m[i] is an opening bracket; return index of its matching closer in masked text."""
    depth = 0
    n = len(m)
    j = i
    while j < n:
        c = m[j]
        if c in OPEN:
            depth += 1
        elif c in CLOSE:
            depth -= 1
            if depth == 0:
                return j
        j += 1
    raise ValueError("unbalanced bracket at %d" % i)


@dataclass
class Item:
    kind: str            # fn struct enum impl trait mod const static type use macro other
    name: str            # ident, or normalised header for impl
    start: int           # absolute offsets in the file
    end: int
    kw: int              # offset of the keyword
    body: tuple = None   # (open_brace, close_brace) absolute, or None
    header: str = ""     # text from keyword to body open (normalised)
    cfg_test: bool = False


KW = re.compile(r"\b(fn|struct|enum|union|impl|trait|mod|const|static|type|use|extern|macro_rules)\b|([A-Za-z_][A-Za-z0-9_:]*)\s*!")
MODIFIERS = {"pub", "async", "unsafe", "default", "crate", "super", "self", "in"}


def norm(s: str) -> str:
    return re.sub(r"\s+", " ", s).strip()


def squeeze(s: str) -> str:
    return re.sub(r"\s+", "", s)


def items(src: str, lo: int = 0, hi: int = None, m: str = None):
    """Items at nesting depth 0 of src[lo:hi]."""
    if m is None:
        m = mask(src)
    if hi is None:
        hi = len(src)
    res = []
    pos = lo
    while True:
        # skip whitespace
        while pos < hi and m[pos].isspace():
            pos += 1
        if pos >= hi:
            break
        start = pos
        # skip attributes and find keyword at bracket depth 0
        i = pos
        kind = None
        kwpos = None
        while i < hi:
            c = m[i]
            if c == "#":
                # attribute  #[...] or #![...]
                j = i + 1
                if j < hi and m[j] == "!":
                    j += 1
                while j < hi and m[j].isspace():
                    j += 1
                if j < hi and m[j] == "[":
                    i = match_close(m, j) + 1
                    continue
                i += 1
                continue
            if c.isspace():
                i += 1
                continue
            mm = re.compile(r"[A-Za-z_][A-Za-z0-9_]*").match(m, i)
            if mm:
                w = mm.group(0)
                if w in ("fn", "struct", "enum", "union", "impl", "trait", "mod", "static", "type", "use", "macro_rules"):
                    kind, kwpos = w, i
                    break
                if w == "const":
                    # const fn / const unsafe fn vs const ITEM
                    rest = m[mm.end():mm.end() + 40].lstrip()
                    if re.match(r"(fn|unsafe|async|extern)\b", rest):
                        i = mm.end()
                        continue
                    kind, kwpos = "const", i
                    break
                if w == "extern":
                    rest = m[mm.end():mm.end() + 40].lstrip()
                    if rest.startswith("crate"):
                        kind, kwpos = "use", i
                        break
                    i = mm.end()
                    # skip ABI string
                    continue
                if w in MODIFIERS:
                    i = mm.end()
                    continue
                # macro invocation `name! {..}` / `name!(..);`
                rest = m[mm.end():mm.end() + 4].lstrip()
                if rest.startswith("!") or rest.startswith("::"):
                    kind, kwpos = "macro", i
                    break
                kind, kwpos = "other", i
                break
            if c == "(":
                # pub(crate) etc.
                i = match_close(m, i) + 1
                continue
            if c == '"':
                j = m.find('"', i + 1)
                i = j + 1
                continue
            kind, kwpos = "other", i
            break
        if kind is None:
            break
        # find end
        j = kwpos
        body = None
        if kind in ("const", "static", "type", "use", "other"):
            depth = 0
            while j < hi:
                c = m[j]
                if c in OPEN:
                    j = match_close(m, j)
                elif c == ";":
                    break
                j += 1
            end = min(j + 1, hi)
        else:
            while j < hi:
                c = m[j]
                if c == "{":
                    k = match_close(m, j)
                    body = (j, k)
                    j = k
                    break
                if c in "([":
                    j = match_close(m, j)
                elif c == ";":
                    break
                j += 1
            end = min(j + 1, hi)
            if kind == "macro" and body is None:
                pass
            if kind == "macro" and end < hi and m[end:end + 1] == ";":
                end += 1
        header_end = body[0] if body else end
        header = norm(m[kwpos:header_end])
        if kind == "impl":
            name = header
        elif kind == "macro":
            name = header.split("!")[0].strip()
            if name == "macro_rules":
                pass
        elif kind == "macro_rules":
            mm2 = re.match(r"macro_rules\s*!\s*([A-Za-z_0-9]+)", m[kwpos:header_end + 1])
            name = mm2.group(1) if mm2 else ""
        else:
            mm2 = re.match(r"[a-z_]+\s+([A-Za-z_][A-Za-z0-9_]*)", m[kwpos:header_end + 1])
            name = mm2.group(1) if mm2 else ""
        lead = m[start:kwpos]
        cfg_test = bool(re.search(r"#\s*\[\s*cfg\s*\(\s*(test|any\(test[^\]]*)\s*\)?\s*\]", lead)) or "cfg(test)" in squeeze(lead)
        res.append(Item(kind, name, start, end, kwpos, body, header, cfg_test))
        pos = end
    return res


class LostAnchor(Exception):
    pass


def _seg_match(it: Item, seg: str) -> bool:
    seg = seg.strip()
    kind, _, rest = seg.partition(" ")
    rest = rest.strip()
    if seg.startswith("impl<"):
        kind, rest = "impl", seg[4:]
    if kind == "impl":
        if it.kind != "impl":
            return False
        if rest.startswith("~"):
            return re.search(rest[1:], it.header) is not None
        return squeeze(it.header) == squeeze("impl" + rest) or squeeze(_strip_generics(it.header)) == squeeze("impl" + rest)
    if kind == "macro_rules":
        return it.kind == "macro_rules" and it.name == rest
    return it.kind == kind and it.name == rest


def _strip_generics(header: str) -> str:
    """impl<'a, T: X> Foo<'a, T> where .. -> impl Foo   (best effort; for matching only)"""
    h = re.sub(r"\bwhere\b.*$", "", header)
    out, depth = [], 0
    for c in h:
        if c == "<":
            depth += 1
        elif c == ">":
            depth -= 1
        elif depth == 0:
            out.append(c)
    return norm("".join(out))


def find_all(src: str, path: str, m: str = None, include_test: bool = False):
    if m is None:
        m = mask(src)
    segs = [s for s in path.split("/") if s.strip()]
    ranges = [(0, len(src))]
    found = []
    for depth, seg in enumerate(segs):
        nxt = []
        for lo, hi in ranges:
            for it in items(src, lo, hi, m):
                if it.cfg_test and not include_test:
                    continue
                if _seg_match(it, seg):
                    if depth == len(segs) - 1:
                        found.append(it)
                    elif it.body:
                        nxt.append((it.body[0] + 1, it.body[1]))
        ranges = nxt
    return found


def find(src: str, path: str, m: str = None, include_test: bool = False) -> Item:
    f = find_all(src, path, m, include_test)
    if len(f) == 0:
        raise LostAnchor("item not found: %s" % path)
    if len(f) > 1:
        raise LostAnchor("item ambiguous (%d matches): %s" % (len(f), path))
    return f[0]


def enclosing_impl_header(src: str, path: str, m: str = None) -> str:
    """Original text of the impl header (up to the opening brace) enclosing the item."""
    if m is None:
        m = mask(src)
    segs = [s for s in path.split("/") if s.strip()]
    if len(segs) < 2:
        return None
    parent = "/".join(segs[:-1])
    last = segs[-1]
    for it in find_all(src, parent, m):
        if it.body:
            for sub in items(src, it.body[0] + 1, it.body[1], m):
                if _seg_match(sub, last) and not sub.cfg_test:
                    # header text without leading attributes
                    return src[it.kw:it.body[0]].strip(), it.kind
    return None


if __name__ == "__main__":
    import sys
    s = open(sys.argv[1]).read()
    if len(sys.argv) > 2:
        it = find(s, sys.argv[2])
        print(s[it.start:it.end])
    else:
        def dump(lo, hi, ind):
            for it in items(s, lo, hi):
                print("%s%s %s%s" % (ind, it.kind, it.name, " [cfg(test)]" if it.cfg_test else ""))
                if it.kind in ("impl", "mod", "trait") and it.body and not it.cfg_test:
                    dump(it.body[0] + 1, it.body[1], ind + "  ")
        dump(0, len(s), "")
