"""Property-level driver: units -> obligations -> verdict, evidence, replay files."""
import hashlib
import json
import os
import re
import shutil
import subprocess
import sys
import time
import traceback
from concurrent.futures import ThreadPoolExecutor

from . import build as B
from . import rustcut as rc
from . import run as R
from . import unit as U

VERIF = U.VERIF
REPO = B.REPO


def log(*a):
    print(*a, flush=True)


class UnitResult:
    def __init__(self, unit):
        self.unit = unit
        self.obls = []          # R.Obl main obligations
        self.canaries = []      # dicts {name, ok(bool), detail}
        self.findings = []      # dicts {id, obligation, present(bool), detail}
        self.cuts = []
        self.counter = {}
        self.meta = {}
        self.undecided = []     # strings
        self.bounded = []       # strings describing bounded stand-ins
        self.wall = 0.0
        self.cex = {}           # obligation -> counterexample text
        self.thorough_incomplete = []
        self.replay = {}
        self.stability = []


# ------------------------------------------------------------------------------------------------
# mode V

def _verus_unit(unit, tier, seed):
    res = UnitResult(unit)
    t0 = time.time()
    try:
        text, cuts, counter = U.gen_verus(unit)
    except (rc.LostAnchor, B.Unsupported) as e:
        res.undecided.append("%s: extraction failed: %s" % (unit["name"], e))
        return res
    res.cuts, res.counter = cuts, dict(counter)
    obls, meta = R.run_verus(unit["name"], text, seed=None)
    res.meta = meta
    failing = [o for o in obls if o.status == "fail"]
    if failing:
        # stability re-run: doubled rlimit, different seed; a verdict that flips is "undecided"
        obls2, _ = R.run_verus(unit["name"] + "_rerun", text, rlimit=20, seed=seed + 7919)
        st2 = {o.name.replace("_rerun::", "::", 1): o.status for o in obls2}
        for o in failing:
            if st2.get(o.name) == "ok":
                o.status = "undecided"
                o.detail = "unstable verdict (failed at default rlimit, verified at doubled rlimit/other seed)\n" + o.detail
    res.obls = obls
    if tier == "thorough" and not failing:
        # proof-stability report: two more solver seeds at half the resource limit; differences are reported, not alarms
        for k in (1, 2):
            o3, _ = R.run_verus(unit["name"] + "_seed%d" % k, text, rlimit=5, seed=seed + 101 * k)
            bad = [o.name for o in o3 if o.status != "ok"]
            res.stability.append({"seed": seed + 101 * k, "rlimit": 5, "not_verified": bad})
    for o in obls:
        if o.status == "undecided":
            res.undecided.append("%s: %s" % (o.name, o.detail[:1500]))
    # findings variants: item spec replaced by the strong (property) contract; expected to fail while the defect exists
    for fd in unit.get("findings", []):
        u2 = dict(unit)
        u2["items"] = [dict(it, spec=fd["spec"], ghost=fd.get("ghost", it.get("ghost")), loops=fd.get("loops", it.get("loops"))) if it["path"] == fd["path"] and it["file"] == fd.get("file", it["file"]) else it for it in unit["items"]]
        if "prelude_extra" in fd:
            u2["prelude"] = unit.get("prelude", "") + fd["prelude_extra"]
        try:
            t2, _, _ = U.gen_verus(u2)
            o2, _ = R.run_verus(unit["name"] + "_finding_" + fd["id"], t2)
            fn = fd["fn"]
            mine = [o for o in o2 if o.name.endswith("::" + fn)]
            others_bad = [o for o in o2 if o.status != "ok" and not o.name.endswith("::" + fn) and o.name.split("::", 1)[1] not in fd.get("also_affected", [])]
            if not mine or mine[0].status == "undecided":
                res.undecided.append("%s finding %s: %s" % (unit["name"], fd["id"], (mine[0].detail if mine else "function not found")[:800]))
                continue
            res.findings.append({"id": fd["id"], "obligation": unit["name"] + "::" + fn + "::" + fd["label"], "present": mine[0].status == "fail",
                                 "detail": mine[0].detail[:3000], "what": fd["what"], "harness": fd.get("harness")})
        except (rc.LostAnchor, B.Unsupported) as e:
            res.undecided.append("%s finding %s: %s" % (unit["name"], fd["id"], e))
    # vacuity canaries: one run per contracted exec fn with `ensures false` added to that fn only
    targets = [it for it in unit["items"] if it.get("spec") and not it.get("no_canary")]

    def one(it):
        u2 = dict(unit)
        u2["items"] = [dict(x, spec=U._add_false_ensures(x["spec"])) if x is it else x for x in unit["items"]]
        fn = it["path"].split("/")[-1].split(" ", 1)[1]
        nm = unit["name"] + "_canary_" + re.sub(r"\W+", "_", it["path"])
        try:
            t2, _, _ = U.gen_verus(u2)
            o2, _ = R.run_verus(nm, t2)
        except Exception as e:  # noqa
            return {"name": it["path"], "ok": False, "detail": "canary generation failed: %s" % e}
        mine = [o for o in o2 if o.name.split("::")[-1] == fn and _owner_matches(o.name, it["path"])]
        ok = bool(mine) and all(o.status == "fail" for o in mine)
        shutil.rmtree(os.path.join(R.BUILD, "verus", nm), ignore_errors=True)
        return {"name": it["path"], "ok": ok, "detail": "" if ok else "`ensures false` verified or was not checked: the contract of %s is vacuous (contradictory precondition / unreachable end)" % it["path"]}

    if targets:
        with ThreadPoolExecutor(max_workers=8) as ex:
            res.canaries = list(ex.map(one, targets))
        for c in res.canaries:
            if not c["ok"]:
                res.undecided.append("%s: vacuity canary: %s" % (unit["name"], c["detail"]))
    res.wall = time.time() - t0
    return res


def _owner_matches(oname, path):
    segs = path.split("/")
    if len(segs) < 2:
        return True
    hdr = segs[-2]
    ty = rc._strip_generics(hdr).split(" for ")[-1].replace("impl", "").strip()
    return ("::" + ty + "::") in oname


# ------------------------------------------------------------------------------------------------
# mode K / M

def _kani_unit(unit, tier, seed, pid=None):
    res = UnitResult(unit)
    t0 = time.time()
    scratch_copy = None
    try:
        if unit["mode"] == "M":
            crate_dir, cuts, counter = _gen_mode_m(unit)
            scratch_copy = crate_dir
        else:
            text, cuts, counter = U.gen_kani(unit)
            crate_dir = R.kani_crate(unit["name"], text, unit.get("deps_toml", ""))
            # refactor tolerance: a free helper function of the same source files that the extracted text
            # newly calls is pulled in automatically (it is then verified as part of its caller)
            for _round in range(3):
                missing = _missing_helpers(crate_dir, unit)
                if not missing:
                    break
                unit = dict(unit, items=list(unit["items"]) + missing)
                res.unit = unit
                text, cuts, counter = U.gen_kani(unit)
                counter["auto.followed_helper"] = counter.get("auto.followed_helper", 0) + len(missing)
                crate_dir = R.kani_crate(unit["name"], text, unit.get("deps_toml", ""))
    except (rc.LostAnchor, B.Unsupported) as e:
        res.undecided.append("%s: extraction failed: %s" % (unit["name"], e))
        return res
    res.cuts, res.counter = cuts, dict(counter)
    hs = [h for h in unit["harnesses"] if tier == "thorough" or h.get("tier", "quick") == "quick"]
    # a finding obligation is reported only under the properties it belongs to
    hs = [h for h in hs if not h.get("only_for") or pid is None or pid in h["only_for"]]
    if os.environ.get("VX_HARNESS"):
        want = os.environ["VX_HARNESS"].split(",")
        hs = [h for h in hs if h["name"] in want]
    # harnesses are grouped by extra kani args
    groups = {}
    for h in hs:
        groups.setdefault(tuple(h.get("kani_args", [])), []).append(h)
    try:
        for extra, hl in groups.items():
            out_all, meta, out, err = R.run_kani(unit["name"], crate_dir, [h["name"] for h in hl], timeout=unit.get("timeout", 3000), harness_timeout=unit.get("harness_timeout", 900),
                                                 jobs=unit.get("jobs", 8), extra=list(extra) + unit.get("kani_args", []))
            res.meta = meta
            if not out_all and unit["mode"] != "M" and re.search(r"error\[E0(?:308|277|369)\]", out + err):
                extra_items = _missing_helpers(crate_dir, unit, kani_err=out + "\n" + err)
                if extra_items:
                    unit = dict(unit, items=list(unit["items"]) + extra_items)
                    res.unit = unit
                    text, cuts, counter = U.gen_kani(unit)
                    counter["auto.followed_trait_impl"] = len(extra_items)
                    res.cuts, res.counter = cuts, dict(counter)
                    crate_dir = R.kani_crate(unit["name"], text, unit.get("deps_toml", ""))
                    out_all, meta, out, err = R.run_kani(unit["name"], crate_dir, [h["name"] for h in hl], timeout=unit.get("timeout", 3000), harness_timeout=unit.get("harness_timeout", 900),
                                                         jobs=unit.get("jobs", 8), extra=list(extra) + unit.get("kani_args", []))
                    res.meta = meta
            # resource pressure is not a verdict: a harness that ran out of memory or time while running next to others gets one run of its own
            starved = [k for k, r in out_all.items() if r["status"] == "undecided" and (r.get("timed_out") or "out of memory" in r.get("raw", ""))]
            if starved and len(out_all) > 1:
                again, meta2, out2, err2 = R.run_kani(unit["name"], crate_dir, starved, timeout=unit.get("timeout", 3000), harness_timeout=unit.get("harness_timeout", 900),
                                                      jobs=2, extra=list(extra) + unit.get("kani_args", []))
                for k, r in again.items():
                    out_all[k] = r
                counter["driver.rerun_starved_harness"] = counter.get("driver.rerun_starved_harness", 0) + len(starved)
                res.counter = dict(counter)
            if not out_all:
                errs = "\n".join(re.findall(r"^error[^\n]*\n(?:[^\n]*\n){0,7}", out + "\n" + err, re.M)[:6])
                res.undecided.append("%s: kani produced no harness results (compile error?):\n%s\n%s" % (unit["name"], errs[:3000], (meta.get("error") or "")[-600:]))
                continue
            for h in hl:
                full = [k for k in out_all if k.split("::")[-1] == h["name"]]
                if not full:
                    res.undecided.append("%s: harness %s did not run" % (unit["name"], h["name"]))
                    continue
                r = out_all[full[0]]
                oname = unit["name"] + "::" + h.get("obligation", h["name"])
                failed_txt = "\n".join("%s  [%s:%s in %s]" % f for f in r["failed"])
                expect = h.get("expect", "ok")
                if expect == "fail":
                    # canary / must-fail harness: proves the assumptions in front of it are satisfiable
                    ok = r["status"] == "fail"
                    res.canaries.append({"name": oname, "ok": ok, "detail": "" if ok else "must-fail harness verified: vacuous assumptions"})
                    if not ok:
                        res.undecided.append("%s: vacuity canary %s did not fail (status %s)" % (unit["name"], h["name"], r["status"]))
                    continue
                if h.get("finding"):
                    if r["status"] == "undecided":
                        res.undecided.append("%s: finding harness %s undecided" % (unit["name"], h["name"]))
                    else:
                        res.findings.append({"id": h["finding"], "obligation": oname, "present": r["status"] == "fail", "detail": failed_txt[:3000],
                                             "what": h.get("what", ""), "harness": h["name"]})
                    continue
                st = r["status"]
                if st == "fail" and r["unwind_fail"] and all("unwinding assertion" in f[0] for f in r["failed"]):
                    st = "undecided"
                    failed_txt = "unwinding bound too small for the current code:\n" + failed_txt
                if st == "undecided" and h.get("tier") == "thorough" and r.get("timed_out"):
                    # a thorough-only harness that does not finish within its budget is reported, not counted, and never an alarm
                    res.thorough_incomplete.append("%s: %s (no verdict within %ds)" % (oname, h["name"], unit.get("harness_timeout", 900)))
                    continue
                if st == "undecided":
                    res.undecided.append("%s: harness %s: %s" % (unit["name"], h["name"], (failed_txt or r["raw"][-1500:])))
                o = R.Obl(oname, "kani/cbmc", st, r["time"], failed_txt if st != "ok" else "", max(1, r["checks"]))
                o.harness = h["name"]
                o.label = h.get("label", "")
                o.bounded = h.get("bounded")
                res.obls.append(o)
                if h.get("bounded"):
                    res.bounded.append("%s: %s" % (oname, h["bounded"]))
        # counterexamples for refuted obligations
        bad = [o for o in res.obls if o.status == "fail"] + []
        # a LISTED known finding needs no fresh counterexample on every quick run (its failing history is in known_findings.json);
        # unlisted findings and the thorough tier still get one
        listed_ids = set(f["id"] for f in known_findings().get("findings", []))
        bad_f = [f for f in res.findings if f["present"] and f.get("harness") and (tier == "thorough" or f["id"] not in listed_ids)]
        names = [o.harness for o in bad][:3] + [f["harness"] for f in bad_f][:3]
        if names and not os.environ.get("VX_NO_PLAYBACK"):
            _, _, out, _ = R.run_kani(unit["name"], crate_dir, names, timeout=1500, jobs=4, extra=unit.get("kani_args", []), playback=True)
            for o in bad:
                res.cex[o.name] = _extract_playback(out, o.harness)
            for f in bad_f:
                res.cex[f["obligation"]] = _extract_playback(out, f["harness"])
            # replay every counterexample NATIVELY on the extracted text (cargo kani playback): a counterexample that
            # does not reproduce the failure is a verifier artefact -> the obligation is undecided, never a violation
            if unit["mode"] != "M":
                for o in bad:
                    verdict = _native_playback(unit, crate_dir, res.cex.get(o.name, ""))
                    res.replay[o.name] = verdict
                    if verdict and verdict.get("reproduced") is False:
                        o.status = "undecided"
                        o.detail = "Kani counterexample does NOT reproduce when executed natively (spurious; verifier modelling artefact)\n" + o.detail
                        res.undecided.append("%s: spurious counterexample (native playback of the extracted text passes): %s" % (o.name, o.detail[:600]))
    finally:
        if scratch_copy and not os.environ.get("VX_KEEP"):
            shutil.rmtree(os.path.dirname(scratch_copy) if unit.get("scratch_parent") else scratch_copy, ignore_errors=True)
    res.wall = time.time() - t0
    return res


def _native_playback(unit, crate_dir, test_text):
    """append Kani's concrete-playback unit test to the generated crate and execute it natively"""
    if not test_text or "fn kani_concrete_playback" not in test_text:
        return None
    mm = re.search(r"fn (kani_concrete_playback_\w+)", test_text)
    lib = os.path.join(crate_dir, "src", "lib.rs")
    src = open(lib).read()
    i = src.rindex("}")
    open(lib, "w").write(src[:i] + "\n" + test_text + "\n" + src[i:])
    env = dict(R.KANI_ENV, CARGO_TARGET_DIR=os.path.join(R.BUILD, "kani-target", unit["name"] + "-playback"))
    try:
        p = subprocess.run(["cargo", "kani", "playback", "-Z", "concrete-playback", "--", mm.group(1)], cwd=crate_dir, env=env, capture_output=True, text=True, timeout=900)
        out = p.stdout + p.stderr
    except Exception as e:  # noqa
        return {"error": str(e)}
    finally:
        open(lib, "w").write(src)
    if re.search(r"test result: FAILED|panicked at", out):
        return {"reproduced": True, "replayed_on": "extracted-text (native execution of Kani's concrete playback test)", "output": out[-1500:]}
    if re.search(r"test result: ok\. 1 passed", out):
        return {"reproduced": False, "replayed_on": "extracted-text", "output": out[-800:]}
    return {"error": "could not run playback", "output": out[-800:]}


def _missing_helpers(crate_dir, unit, kani_err=None):
    """cargo check of the generated crate; for every `cannot find function X` look for a top-level `fn X` in the unit's source files"""
    env = dict(R.KANI_ENV, CARGO_TARGET_DIR=os.path.join(R.BUILD, "kani-target", unit["name"] + "-check"))
    try:
        p = subprocess.run(["cargo", "check", "--offline", "-q"], cwd=crate_dir, env=env, capture_output=True, text=True, timeout=300)
    except Exception:
        return []
    names = set(re.findall(r"cannot find function `([A-Za-z_0-9]+)` in this scope", p.stderr))
    have = set(it["path"] for it in unit["items"])
    found = []
    for n in sorted(names):
        for f in sorted(set(it["file"] for it in unit["items"])):
            try:
                src, m = B.read_repo(f)
                rc.find(src, "fn " + n, m)
            except rc.LostAnchor:
                continue
            if "fn " + n not in have:
                found.append({"file": f, "path": "fn " + n})
            break
    # new helper METHODS / associated functions of a type whose impl items are already under extraction
    meths = set(re.findall(r"no method named `([A-Za-z_0-9]+)` found for (?:reference|mutable reference|struct|enum) `&?(?:mut )?([A-Za-z_0-9]+)", p.stderr))
    meths |= set(re.findall(r"no (?:function or associated item|associated function or constant) named `([A-Za-z_0-9]+)` found for (?:struct|enum) `([A-Za-z_0-9]+)", p.stderr))
    for n, ty in sorted(meths):
        path = "impl %s/fn %s" % (ty, n)
        if path in have:
            continue
        for f in sorted(set(it["file"] for it in unit["items"] if it["path"].startswith("impl %s/" % ty))) or sorted(set(it["file"] for it in unit["items"])):
            try:
                src, m = B.read_repo(f)
                rc.find(src, path, m)
            except rc.LostAnchor:
                continue
            found.append({"file": f, "path": path})
            break
    # (plain `cargo check` always fails on units whose shims call kani::any -- E0433 -- so a failure alone means nothing; only type/trait errors
    #  that name a type under extraction justify pulling in trait impls)
    trait_errs = re.findall(r"error\[E0(?:308|277|369)\][^\n]*\n(?:[^\n]*\n){0,12}", kani_err or "")
    if not found and trait_errs:
        # new TRAIT IMPLS for a struct/enum that is under extraction (e.g. a hand-written `impl PartialEq<X> for T` replacing a derive):
        # pull in every top-level `impl <Trait> for T` of the unit's source files that is not part of the unit yet
        types = set(it["path"].split()[-1] for it in unit["items"] if it["path"].split()[0] in ("struct", "enum"))
        for f in sorted(set(it["file"] for it in unit["items"])):
            try:
                src, m = B.read_repo(f)
            except Exception:
                continue
            for it in rc.items(src, m=m):
                if it.kind != "impl" or it.cfg_test or " for " not in it.header:
                    continue
                ty = re.sub(r"<.*", "", it.header.split(" for ")[-1].split(" where ")[0]).strip()
                path = rc.norm(it.header.split("{")[0]).strip()
                head = it.header.split(" for ")[0]
                head = re.sub(r"^impl\s*(<[^>]*>)?\s*", "", head)          # drop `impl` and its generic parameter list
                trait = re.sub(r"<.*", "", head).strip().split("::")[-1]
                if trait in ("Debug", "Display", "Serialize", "Deserialize", "Error", "Drop"):
                    continue      # formatting / serde impls are never needed by a contract and drag in crates the unit does not have
                if ty in types and any(ty in e for e in trait_errs) and path not in have and not any(h.startswith(path + "/") or h == path for h in have):
                    found.append({"file": f, "path": path})
    return found


def _extract_playback(out, harness):
    blocks = re.split(r"(?=Checking harness )", out)
    for b in blocks:
        if re.match(r"Checking harness \S*%s\.\.\." % re.escape(harness), b):
            mm = re.search(r"Concrete playback unit test for `[^`]*`:\s*```(.*?)```", b, re.S)
            if mm:
                return mm.group(1).strip()
            mm = re.search(r"(#\[test\]\s*fn kani_concrete_playback.*?\n\}\n)", b, re.S)
            if mm:
                return mm.group(1)
    return ""


def _gen_mode_m(unit):
    """scratch copy of a whole crate from /repo + appended #[cfg(kani)] module + injected contract attributes"""
    counter = B.Counter()
    src_dir = os.path.join(REPO, unit["crate_dir"])
    if not os.path.isdir(src_dir):
        raise rc.LostAnchor("crate dir missing: %s" % unit["crate_dir"])
    dst = os.path.join(R.SCRATCH, "vx-%s-%d" % (unit["name"], os.getpid()))
    shutil.rmtree(dst, ignore_errors=True)
    shutil.copytree(src_dir, dst, ignore=shutil.ignore_patterns("target", "benches"))
    open(os.path.join(dst, "Cargo.toml"), "w").write(unit["cargo_toml"])
    lock = os.path.join(REPO, "Cargo.lock")
    if unit.get("copy_lock") and os.path.exists(lock):
        shutil.copy(lock, os.path.join(dst, "Cargo.lock"))
    cuts = []
    # inject contract attributes in front of named functions (attributes only; no executable token is edited)
    for inj in unit.get("inject", []):
        p = os.path.join(dst, inj["file"])
        s = open(p).read()
        it = rc.find(s, inj["path"])
        raw = s[it.start:it.end]
        cuts.append(B.Cut(os.path.join(unit["crate_dir"], inj["file"]), inj["path"], raw, None, it.kind, hashlib.sha256(raw.encode()).hexdigest()))
        # insert after leading attributes/doc comments: directly before the item keyword line start
        ins = s.rfind("\n", 0, it.kw) + 1
        # move before visibility qualifiers on the same line
        s = s[:ins] + inj["attrs"].strip() + "\n" + s[ins:]
        open(p, "w").write(s)
        counter.hit("M.inject_contract_attr")
    for fn in unit.get("under_contract", []):
        f, pth = fn
        s = open(os.path.join(dst, f)).read()
        it = rc.find(s, pth)
        raw = s[it.start:it.end]
        cuts.append(B.Cut(os.path.join(unit["crate_dir"], f), pth, raw, None, it.kind, hashlib.sha256(raw.encode()).hexdigest()))
    lib = os.path.join(dst, unit.get("lib", "src/lib.rs"))
    s = open(lib).read()
    extra = ""
    if unit.get("items"):
        # functions of OTHER crates that use this crate: extracted (rules R1-R4) into the appended module
        body, cuts2 = B.assemble(unit["items"], "K", counter)
        cuts += cuts2
        extra = unit.get("prelude", "") + "\n// ======== extracted from /repo (rules R1-R4 applied) ========\n" + body
    s = unit.get("crate_attrs", "") + "\n" + s + "\n\n#[cfg(kani)]\nmod vx_harness {\n    use super::*;\n" + extra + unit["harness"] + "\n}\n"
    open(lib, "w").write(s)
    counter.hit("M.append_harness_module")
    return dst, cuts, counter


# ------------------------------------------------------------------------------------------------

def run_unit(unit, tier, seed, pid=None):
    try:
        if unit["mode"] == "V":
            return _verus_unit(unit, tier, seed)
        return _kani_unit(unit, tier, seed, pid)
    except Exception as e:  # tool problem: undecided, never an alarm
        r = UnitResult(unit)
        r.undecided.append("%s: internal error: %s\n%s" % (unit["name"], e, traceback.format_exc()[-2000:]))
        return r


def assumption_scan(units):
    """mechanical list of every assume/admit/external_body/assume_specification/kani::assume/stub in spec text and shims"""
    found = []
    pats = [r"\bassume\s*\(", r"\badmit\s*\(", r"external_body", r"assume_specification", r"kani::assume", r"kani::stub", r"\bexternal\b", r"uninterp\s+spec", r"axiom"]
    for u in units:
        texts = [("units/%s.py" % u["name"], json.dumps({k: v for k, v in u.items() if isinstance(v, str)}))]
        texts[0] = ("units/%s.py" % u["name"], "\n".join(v for v in u.values() if isinstance(v, str)) + "\n".join((it.get("spec") or "") + "".join(g[2] for g in it.get("ghost", []) or []) for it in u.get("items", [])))
        for sf in u.get("shim_files", []):
            texts.append((sf, U.read_rel(sf)))
        for name, t in texts:
            for ln, line in enumerate(t.split("\n"), 1):
                for p in pats:
                    if re.search(p, line) and not line.strip().startswith("//"):
                        found.append("%s: %s" % (name, line.strip()[:160]))
                        break
    return sorted(set(found))


def known_findings():
    p = os.path.join(VERIF, "known_findings.json")
    if not os.path.exists(p):
        return {"findings": [], "fixed": []}
    return json.load(open(p))


def write_replay(pid, obligation, payload):
    d = os.path.join(VERIF, "replays", pid)
    os.makedirs(d, exist_ok=True)
    fn = re.sub(r"[^A-Za-z0-9_.#-]+", "_", obligation)[:150] + ".json"
    p = os.path.join(d, fn)
    json.dump(payload, open(p, "w"), indent=1)
    return p


def check_property(pid, tier, seed, only_unit=None):
    t0 = time.time()
    units = [u for u in U.all_units(pid) if pid in u["properties"]]
    if only_unit:
        units = [u for u in units if u["name"] == only_unit]
    if not units:
        log("UNDECIDED property=%s no units registered" % pid)
        return 2
    units = [u for u in units if tier == "thorough" or u.get("tier", "quick") == "quick"]
    maxw = int(os.environ.get("VX_PAR", "4"))
    with ThreadPoolExecutor(max_workers=maxw) as ex:
        results = list(ex.map(lambda u: run_unit(u, tier, seed, pid), units))
    kf = known_findings()
    listed = {(f["property"], f["id"]): f for f in kf.get("findings", [])}
    violations, known_lines, undecided = [], [], []
    obl_all, discharged = [], 0
    for r in results:
        undecided += r.undecided
        for o in r.obls:
            obl_all.append(o)
            if o.status == "ok":
                discharged += 1
            elif o.status == "fail":
                cex = r.cex.get(o.name, "")
                replay = r.replay.get(o.name) or _try_native_replay(pid, r.unit, o, cex)
                path = write_replay(pid, o.name, {"property": pid, "obligation": o.name, "label": getattr(o, "label", ""), "backend": o.backend,
                                                  "verifier_output": o.detail, "counterexample": cex or None, "native_replay": replay,
                                                  "unit": r.unit["name"], "functions": [c.path for c in r.cuts]})
                violations.append((o, path, bool(cex)))
        for f in r.findings:
            if not f["present"]:
                continue
            key = (pid, f["id"])
            if key in listed:
                known_lines.append("KNOWN-FINDING: property=%s %s [%s] obligation=%s" % (pid, listed[key]["what"], f["id"], f["obligation"]))
            else:
                cex = r.cex.get(f["obligation"], "")
                path = write_replay(pid, f["obligation"], {"property": pid, "obligation": f["obligation"], "verifier_output": f["detail"],
                                                          "counterexample": cex or None, "what": f["what"], "unit": r.unit["name"]})
                o = R.Obl(f["obligation"], "finding", "fail", 0, f["detail"])
                violations.append((o, path, bool(cex)))
    wall = time.time() - t0
    _write_evidence(pid, tier, seed, units, results, obl_all, discharged, violations, known_lines, undecided, wall)
    for l in known_lines:
        log(l)
    for r in results:
        nok = sum(1 for o in r.obls if o.status == "ok")
        log("unit %-28s mode=%s obligations=%d discharged=%d canaries=%d/%d wall=%.1fs" % (
            r.unit["name"], r.unit["mode"], len(r.obls), nok, sum(1 for c in r.canaries if c["ok"]), len(r.canaries), r.wall))
    if violations:
        for o, path, has_cex in violations:
            log("FAILED OBLIGATION %s (%s)\n%s" % (o.name, o.backend, o.detail[:1500]))
            log("VIOLATION property=%s replay=%s%s" % (pid, path, "" if has_cex else " no-failing-input-found"))
        return 1
    if undecided:
        for u in undecided:
            log("UNDECIDED property=%s %s" % (pid, u[:2500]))
        return 2
    log("OK property=%s tier=%s obligations=%d discharged=%d wall=%.1fs" % (pid, tier, len(obl_all), discharged, wall))
    return 0


def _try_native_replay(pid, unit, o, cex):
    hook = unit.get("native_replay")
    if not hook or not cex:
        return None
    try:
        return hook(o, cex)
    except Exception as e:  # noqa
        return {"error": str(e)}


def _write_evidence(pid, tier, seed, units, results, obl_all, discharged, violations, known_lines, undecided, wall):
    man = {}
    try:
        man = {c["property_id"]: c for c in json.load(open(os.path.join(VERIF, "MANIFEST.json")))["checks"]}
    except Exception:
        pass
    level = man.get(pid, {}).get("level_claimed", {}).get("category", "proof")
    fns = []
    rules = {}
    backends = {}
    bounded = []
    canaries_total = canaries_ok = 0
    solver_time = 0.0
    for r in results:
        for c in r.cuts:
            fns.append({"file": c.file, "item": c.path, "sha256": c.sha[:16], "unit": r.unit["name"], "mode": r.unit["mode"]})
        for k, v in r.counter.items():
            rules[k] = rules.get(k, 0) + v
        for o in r.obls:
            backends[o.backend] = backends.get(o.backend, 0) + 1
            solver_time += o.time_s
        bounded += r.bounded
        canaries_total += len(r.canaries)
        canaries_ok += sum(1 for c in r.canaries if c["ok"])
    assumptions = []
    for u in units:
        assumptions += ["[%s] %s" % (u["name"], a) for a in u.get("assumptions", [])]
    scan = assumption_scan(units)
    samples = [o.as_dict() for o in obl_all[:12]]
    cov = {
        "obligations": len(obl_all),
        "discharged": discharged,
        "checker_cmd": "; ".join(sorted(set(r.meta.get("cmd", "") for r in results if r.meta.get("cmd")))),
        "trusted_base": ["Verus 0.2026.09.13 + bundled Z3", "Kani 0.68.0 + CBMC 6.11 + kissat", "rustc front ends of both",
                         "vx extractor (python): item cut by path + rewrite rules listed in rule_applications",
                         "hand-written shim environment and uninterpreted functions listed in assumptions"],
        "explanation": "Functions are cut from /repo's working tree on every run; contracts (requires/ensures/invariants, Kani harness assertions) are "
                       "discharged per function; lemmas lift them to the history-level statement. See DESIGN.md for the property's section.",
        "functions_under_contract": fns,
        "rule_applications": rules,
        "obligations_by_backend": backends,
        "solver_time_s": round(solver_time, 2),
        "vacuity_canaries": {"run": canaries_total, "behaved": canaries_ok},
        "bounded_stand_ins": bounded,
        "known_findings_reported": known_lines,
        "undecided": [u[:300] for u in undecided],
        "thorough_incomplete": sum([r.thorough_incomplete for r in results], []),
        "verus_stability_runs": sum([r.stability for r in results], []),
        "assumption_scan": scan,
        "samples": samples,
        "evaluations": len(obl_all),
        "distinct_nontrivial": len(set(o.name for o in obl_all)),
        "rule": "one case = one named obligation (a Verus function/lemma verification condition bundle or a Kani harness with all its CBMC checks); all are distinct by name",
        "all_obligations": [o.as_dict() for o in obl_all],
    }
    ev = {"property_id": pid, "tier": tier if tier in ("quick", "thorough") else "quick", "seed": seed, "level": level, "coverage": cov,
          "assumptions": assumptions, "wall_s": round(wall, 2), "violations": len(violations)}
    os.makedirs(os.path.join(VERIF, "evidence"), exist_ok=True)
    json.dump(ev, open(os.path.join(VERIF, "evidence", pid + ".json"), "w"), indent=1)


def show_replay(path):
    d = json.load(open(path))
    log(json.dumps(d, indent=1)[:20000])
    return 0
